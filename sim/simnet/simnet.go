// Package simnet is a reliable, ordered, duplex byte stream that misbehaves
// only the way TCP may: writes are cut into segments, segments are delayed and
// coalesced, reads return fewer bytes than asked for, the receive window exerts
// back-pressure, a direction may stall, and the link may be cut at any byte
// offset (peer crash / reset). Every decision comes from the world's tape.
// A wire-tap records every accepted byte per direction.
//
// Blocking happens in the kernel, so the scheduler sees blocked readers and
// writers and can report deadlock. All methods are //go:norace: the link is
// "the network", not shared memory of the code under test.
package simnet

import (
	"context"
	"errors"
	"io"
	"net"
	"os"
	"time"

	"verifsim/kernel"
	"verifsim/simrt"
	"verifsim/tape"
)

var (
	fCut         = simrt.NewFault("link.cut")
	fWriteErr    = simrt.NewFault("link.write.error.after.cut")
	fStall       = simrt.NewFault("link.stall")
	fShortRead   = simrt.NewFault("link.short.read")
	fSegmented   = simrt.NewFault("link.write.segmented")
	fBackPress   = simrt.NewFault("link.backpressure.block")
	fCoalesced   = simrt.NewFault("link.segments.coalesced")
	fLatency     = simrt.NewFault("link.delivery.delayed")
	fDeadline    = simrt.NewFault("link.deadline.expired")
	fTransient   = simrt.NewFault("link.write.transient.error(0.bytes.accepted)")
	fEOFWithData = simrt.NewFault("link.eof.delivered.with.last.bytes")
	ErrReset     = errors.New("simnet: connection reset by peer")
	ErrInjected  = errors.New("simnet: injected I/O error")
)

type timeoutErr struct{}

func (timeoutErr) Error() string   { return "simnet: i/o timeout" }
func (timeoutErr) Timeout() bool   { return true }
func (timeoutErr) Temporary() bool { return true }
func (timeoutErr) Is(target error) bool {
	return target == os.ErrDeadlineExceeded
}

// LinkCfg holds the per-link knobs (drawn once per link, swarm style).
type LinkCfg struct {
	SegMode   int // 0 whole, 1 one byte, 2 random<=MaxSeg, 3 head bytes single then whole
	MaxSeg    int
	HeadBytes int
	ReadMode  int // 0 as much as available, 1 one byte, 2 random
	Window    int // 0 unbounded
	LatMode   int // 0 none, 1 fixed, 2 random
	LatMax    time.Duration
	StallAt   int64 // stream offset at which a direction stalls once (-1 never)
	StallFor  time.Duration
	YieldDen  int // 1 = park point at every Read/Write; k = with probability 1/k
	// CutAt: after this many bytes of the direction have been accepted the link
	// is cut: the reader gets exactly those bytes, then CutErr; the writer gets
	// an error from then on. -1 = never.
	CutAt  int64
	CutErr error
	// EOFWithData: when the writer has closed (or the link was cut) and a read
	// takes the last delivered bytes, the error is returned together with them
	// (n > 0, err) instead of on the next call - legal for an io.Reader.
	EOFWithData bool
	// FailWriteCall: the n-th Write call on this direction (1-based) accepts no
	// byte and returns a timeout-like error once; the connection stays usable
	// (what a write deadline that is then extended looks like). 0 = never.
	FailWriteCall int
	// SlowWriteCall: the n-th Write call (1-based) takes SlowWriteFor of
	// simulated time before any byte is accepted (a stalled sender). 0 = never.
	SlowWriteCall int
	SlowWriteFor  time.Duration
}

// DrawCfgFor is DrawCfg for a stream expected to carry about total bytes:
// byte-granular segmentation and reads are only used for small streams so
// that a run stays within its step budget.
func DrawCfgFor(t *tape.Tape, total int) LinkCfg {
	c := DrawCfg(t)
	if total > 6000 {
		if c.SegMode == 1 {
			c.SegMode = 3
		}
		if c.SegMode == 2 && c.MaxSeg < 64 {
			c.MaxSeg = 1000
		}
		if c.ReadMode == 1 {
			c.ReadMode = 2
		}
		if c.Window > 0 && c.Window < 512 {
			c.Window = 512 << t.Choose(4)
		}
	}
	if total > 200000 {
		c.SegMode, c.ReadMode, c.Window = 0, 0, 0
	}
	return c
}

// DrawCfg draws a non-destructive link configuration.
func DrawCfg(t *tape.Tape) LinkCfg {
	c := LinkCfg{CutAt: -1, StallAt: -1}
	c.SegMode = t.Pick(3, 2, 4, 2)
	c.MaxSeg = []int{2, 3, 7, 16, 64, 1000}[t.Choose(6)]
	c.HeadBytes = 1 + t.Choose(8)
	c.ReadMode = t.Pick(3, 2, 4)
	switch t.Pick(5, 2, 2) {
	case 1:
		c.Window = 1 + t.Choose(8)
	case 2:
		c.Window = 16 << t.Choose(8)
	}
	c.LatMode = t.Pick(5, 2, 3)
	c.LatMax = time.Duration(1+t.Choose(50)) * time.Millisecond
	if t.Bool(1, 8) {
		c.StallAt = int64(t.Choose(2000))
		c.StallFor = time.Duration(1+t.Choose(20)) * time.Second
	}
	c.YieldDen = 1 + t.Pick(6, 2, 1, 1)
	c.EOFWithData = t.Bool(1, 4)
	if t.Bool(1, 6) {
		c.SlowWriteCall = 1 + t.Choose(6)
		c.SlowWriteFor = time.Duration(200+t.Choose(3000)) * time.Millisecond
	}
	return c
}

type segment struct {
	data []byte
}

type dir struct {
	w           *kernel.World
	cfg         LinkCfg
	avail       []byte
	inflight    int
	wclosed     bool // writing end closed
	rclosed     bool // reading end closed
	cut         bool
	written     int64
	tap         []byte
	lastAt      time.Duration
	stalled     bool
	readers     []*kernel.Task
	writers     []*kernel.Task
	pendingSegs int
	writeCalls  int
}

type addr string

func (a addr) Network() string { return "sim" }
func (a addr) String() string  { return string(a) }

// Conn is one end of a simulated link.
type Conn struct {
	w      *kernel.World
	name   string
	in     *dir // we read from
	out    *dir // we write to
	closed bool
	// failNext: the next Write call on this end fails once with a timeout and
	// accepts nothing (set by harnesses right before an operation)
	failNext bool
	rdl      time.Time
	wdl      time.Time
	local    addr
	remote   addr
}

// Link is a duplex connection with its two ends and the wire-taps.
type Link struct {
	A, B *Conn
	ab   *dir
	ba   *dir
}

// Pipe creates a link; cfgAB applies to bytes written by A.
func Pipe(w *kernel.World, name string, cfgAB, cfgBA LinkCfg) *Link {
	ab := &dir{w: w, cfg: cfgAB}
	ba := &dir{w: w, cfg: cfgBA}
	l := &Link{ab: ab, ba: ba}
	l.A = &Conn{w: w, name: name + ".A", in: ba, out: ab, local: addr(name + ".A"), remote: addr(name + ".B")}
	l.B = &Conn{w: w, name: name + ".B", in: ab, out: ba, local: addr(name + ".B"), remote: addr(name + ".A")}
	return l
}

// TapAB returns every byte A's writes had accepted so far (B's input stream).
//
//go:norace
func (l *Link) TapAB() []byte { return l.ab.tap }

//go:norace
func (l *Link) TapBA() []byte { return l.ba.tap }

// UnreadAB returns delivered-but-unread plus in-flight byte count towards B.
//
//go:norace
func (l *Link) UnreadAB() int { return len(l.ab.avail) + l.ab.inflight }

//go:norace
func (l *Link) UnreadBA() int { return len(l.ba.avail) + l.ba.inflight }

//go:norace
func (d *dir) wake(list *[]*kernel.Task) {
	for i, t := range *list {
		d.w.Wake(t)
		(*list)[i] = nil
	}
	*list = (*list)[:0]
}

//go:norace
func (d *dir) deliver(seg []byte) {
	if len(d.avail) > 0 {
		fCoalesced.Hit()
	}
	d.avail = bappend(d.avail, seg)
	d.inflight -= len(seg)
	d.pendingSegs--
	d.wake(&d.readers)
}

//go:norace
func (c *Conn) yield(site string) *kernel.Task {
	t := c.w.Me()
	if t == nil {
		return nil
	}
	den := c.out.cfg.YieldDen
	if den <= 1 || c.w.T.Choose(den) == 0 {
		c.w.YieldT(t, site)
	}
	return t
}

//go:norace
func (c *Conn) Read(p []byte) (int, error) {
	if c.w.Dead() {
		return 0, io.ErrClosedPipe
	}
	t := c.yield("net.read")
	d := c.in
	if len(p) == 0 {
		return 0, nil
	}
	for {
		if c.closed {
			return 0, net.ErrClosed
		}
		if len(d.avail) > 0 {
			n := len(d.avail)
			if n > len(p) {
				n = len(p)
			}
			if n > 1 {
				switch d.cfg.ReadMode {
				case 1:
					n = 1
				case 2:
					n = 1 + c.w.T.Choose(n)
				}
			}
			if n < len(p) && n < len(d.avail) {
				fShortRead.Hit()
			}
			bcopy(p, d.avail[:n])
			d.avail = d.avail[n:]
			if len(d.avail) == 0 {
				d.avail = nil
			}
			d.wake(&d.writers)
			if d.cfg.EOFWithData && len(d.avail) == 0 && d.inflight == 0 {
				if d.cut {
					fEOFWithData.Hit()
					return n, d.cfg.CutErr
				}
				if d.wclosed {
					fEOFWithData.Hit()
					return n, io.EOF
				}
			}
			return n, nil
		}
		if d.inflight == 0 {
			if d.cut {
				return 0, d.cfg.CutErr
			}
			if d.wclosed {
				return 0, io.EOF
			}
		}
		if !c.rdl.IsZero() && !time.Now().Before(c.rdl) {
			fDeadline.Hit()
			return 0, timeoutErr{}
		}
		if t == nil {
			panic("simnet: Read would block outside a task")
		}
		d.readers = append(d.readers, t)
		c.w.Block(t, "net.read", "conn.read:"+c.name)
	}
}

//go:norace
func (c *Conn) Write(p []byte) (int, error) {
	if c.w.Dead() {
		return 0, io.ErrClosedPipe
	}
	t := c.yield("net.write")
	d := c.out
	done := 0
	if (c.failNext || (d.cfg.FailWriteCall > 0 && d.writeCalls+1 == d.cfg.FailWriteCall)) && len(p) > 0 {
		c.failNext = false
		d.writeCalls++
		fTransient.Hit()
		c.w.Note("fault", "link "+c.name+" write call fails once with a timeout, 0 bytes accepted")
		return 0, timeoutErr{}
	}
	d.writeCalls++
	if d.cfg.SlowWriteCall > 0 && d.writeCalls == d.cfg.SlowWriteCall && t != nil {
		fSlowWrite.Hit()
		c.w.Note("fault", "link "+c.name+" write call stalls for "+d.cfg.SlowWriteFor.String())
		c.w.Sleep(d.cfg.SlowWriteFor)
	}
	for {
		if c.closed {
			return done, net.ErrClosed
		}
		if d.cut {
			fWriteErr.Hit()
			return done, ErrReset
		}
		if d.rclosed {
			return done, io.ErrClosedPipe
		}
		if done == len(p) {
			return done, nil
		}
		if !c.wdl.IsZero() && !time.Now().Before(c.wdl) {
			fDeadline.Hit()
			return done, timeoutErr{}
		}
		space := len(p) - done
		if d.cfg.Window > 0 {
			free := d.cfg.Window - d.inflight - len(d.avail)
			if free <= 0 {
				if t == nil {
					panic("simnet: Write would block outside a task")
				}
				fBackPress.Hit()
				c.w.Note("fault", "link "+c.name+" writer blocked by the receive window")
				d.writers = append(d.writers, t)
				c.w.Block(t, "net.write", "conn.write:"+c.name)
				continue
			}
			if free < space {
				space = free
			}
		}
		n := space
		switch d.cfg.SegMode {
		case 1:
			n = 1
		case 2:
			if n > d.cfg.MaxSeg {
				n = d.cfg.MaxSeg
			}
			if n > 1 {
				n = 1 + c.w.T.Choose(n)
			}
		case 3:
			if done < d.cfg.HeadBytes {
				n = 1
			}
		}
		if n < len(p)-done {
			fSegmented.Hit()
		}
		// cut: only the bytes before the cut offset are accepted
		if d.cfg.CutAt >= 0 && d.written+int64(n) > d.cfg.CutAt {
			n = int(d.cfg.CutAt - d.written)
			d.cut = true
			fCut.Hit()
			c.w.Note("fault", "link "+c.name+" cut after "+itoa(d.cfg.CutAt)+" bytes of this direction")
		}
		if n > 0 {
			seg := make([]byte, n)
			bcopy(seg, p[done:done+n])
			d.tap = bappend(d.tap, seg)
			d.written += int64(n)
			d.inflight += n
			d.pendingSegs++
			done += n
			c.send(d, seg)
		}
		if d.cut {
			d.wake(&d.readers)
		}
	}
}

//go:norace
func (c *Conn) send(d *dir, seg []byte) {
	var lat time.Duration
	switch d.cfg.LatMode {
	case 1:
		lat = d.cfg.LatMax
	case 2:
		lat = time.Duration(c.w.T.Choose(int(d.cfg.LatMax/time.Microsecond)+1)) * time.Microsecond
	}
	if d.cfg.StallAt >= 0 && !d.stalled && d.written > d.cfg.StallAt {
		d.stalled = true
		lat += d.cfg.StallFor
		fStall.Hit()
		c.w.Note("fault", "link "+c.name+" stalls for "+d.cfg.StallFor.String()+" at offset "+itoa(d.written))
	}
	now := c.w.Since()
	at := now + lat
	if at < d.lastAt {
		at = d.lastAt // ordered stream
	}
	d.lastAt = at
	if at == now && d.pendingSegs == 1 {
		d.deliver(seg)
		return
	}
	fLatency.Hit()
	c.w.After(at-now, func() { d.deliver(seg) })
}

//go:norace
func (c *Conn) Close() error {
	if c.w.Dead() {
		return nil
	}
	c.yield("net.close")
	if c.closed {
		return net.ErrClosed
	}
	c.closed = true
	c.out.wclosed = true
	c.in.rclosed = true
	c.out.wake(&c.out.readers)
	c.out.wake(&c.out.writers)
	c.in.wake(&c.in.readers)
	c.in.wake(&c.in.writers)
	return nil
}

// FailNextWrite makes the next Write call on this end fail once (timeout, no
// byte accepted); the connection stays usable.
//
//go:norace
func (c *Conn) FailNextWrite() { c.failNext = true }

// CloseWrite half-closes the sending direction (peer reads EOF after drain).
//
//go:norace
func (c *Conn) CloseWrite() error {
	c.out.wclosed = true
	c.out.wake(&c.out.readers)
	return nil
}

func (c *Conn) LocalAddr() net.Addr  { return c.local }
func (c *Conn) RemoteAddr() net.Addr { return c.remote }

//go:norace
func (c *Conn) SetDeadline(t time.Time) error {
	c.SetReadDeadline(t)
	c.SetWriteDeadline(t)
	return nil
}

//go:norace
func (c *Conn) SetReadDeadline(t time.Time) error {
	c.rdl = t
	c.armDeadline(t, c.in, true)
	return nil
}

//go:norace
func (c *Conn) SetWriteDeadline(t time.Time) error {
	c.wdl = t
	c.armDeadline(t, c.out, false)
	return nil
}

//go:norace
func (c *Conn) armDeadline(t time.Time, d *dir, read bool) {
	if t.IsZero() || c.w.Dead() {
		return
	}
	dur := time.Until(t)
	if dur < 0 {
		dur = 0
	}
	c.w.After(dur, func() {
		if read {
			d.wake(&d.readers)
		} else {
			d.wake(&d.writers)
		}
	})
}

//go:norace
func itoa(v int64) string {
	if v == 0 {
		return "0"
	}
	neg := v < 0
	if neg {
		v = -v
	}
	var b [24]byte
	i := len(b)
	for v > 0 {
		i--
		b[i] = byte('0' + v%10)
		v /= 10
	}
	if neg {
		i--
		b[i] = '-'
	}
	return string(b[i:])
}

// ---------------------------------------------------------------- dialing

// Dial is set by harnesses; woven net.Dial calls land here.
var Dial func(network, address string) (net.Conn, error)

// ---------------------------------------------------------------- listening

// Listener is a simulated net.Listener: Accept blocks in the kernel until a
// dialler has pushed the server end of a new link.
type Listener struct {
	w       *kernel.World
	name    string
	pending []net.Conn
	waiters []*kernel.Task
	closed  bool
}

func NewListener(w *kernel.World, name string) *Listener { return &Listener{w: w, name: name} }

// Push hands the server end of a freshly dialled link to the listener.
//
//go:norace
func (l *Listener) Push(c net.Conn) {
	l.pending = append(l.pending, c)
	for i, t := range l.waiters {
		l.w.Wake(t)
		l.waiters[i] = nil
	}
	l.waiters = l.waiters[:0]
}

//go:norace
func (l *Listener) Accept() (net.Conn, error) {
	if l.w.Dead() {
		return nil, net.ErrClosed
	}
	t := l.w.Me()
	if t != nil {
		l.w.YieldT(t, "net.accept")
	}
	for {
		if l.closed {
			return nil, net.ErrClosed
		}
		if len(l.pending) > 0 {
			c := l.pending[0]
			for j := 0; j < len(l.pending)-1; j++ {
				l.pending[j] = l.pending[j+1]
			}
			l.pending[len(l.pending)-1] = nil
			l.pending = l.pending[:len(l.pending)-1]
			return c, nil
		}
		if t == nil {
			panic("simnet: Accept would block outside a task")
		}
		l.waiters = append(l.waiters, t)
		l.w.Block(t, "net.accept", "listener:"+l.name)
	}
}

//go:norace
func (l *Listener) Close() error {
	l.closed = true
	for i, t := range l.waiters {
		l.w.Wake(t)
		l.waiters[i] = nil
	}
	l.waiters = l.waiters[:0]
	return nil
}

func (l *Listener) Addr() net.Addr { return addr(l.name) }

// Listen is set by harnesses; woven net.Listen calls land here.
var Listen func(network, address string) (net.Listener, error)

// ListenHook replaces net.Listen in woven files.
func ListenHook(network, address string) (net.Listener, error) {
	if Listen == nil {
		return net.Listen(network, address)
	}
	return Listen(network, address)
}

// DialTimeoutHook replaces net.DialTimeout in woven files.
func DialTimeoutHook(network, address string, timeout time.Duration) (net.Conn, error) {
	if Dial == nil {
		return net.DialTimeout(network, address, timeout)
	}
	return Dial(network, address)
}

// Dialer replaces net.Dialer in woven files (the fields a dialling helper
// typically sets; all of them are ignored by the simulated dial).
type Dialer struct {
	Timeout   time.Duration
	Deadline  time.Time
	KeepAlive time.Duration
	LocalAddr net.Addr
}

func (d *Dialer) Dial(network, address string) (net.Conn, error) {
	if Dial == nil {
		return (&net.Dialer{Timeout: d.Timeout, Deadline: d.Deadline, KeepAlive: d.KeepAlive}).Dial(network, address)
	}
	return Dial(network, address)
}

func (d *Dialer) DialContext(ctx context.Context, network, address string) (net.Conn, error) {
	if Dial == nil {
		return (&net.Dialer{Timeout: d.Timeout, Deadline: d.Deadline, KeepAlive: d.KeepAlive}).DialContext(ctx, network, address)
	}
	if err := ctx.Err(); err != nil {
		return nil, err
	}
	return Dial(network, address)
}

// DialHook replaces net.Dial in woven files.
func DialHook(network, address string) (net.Conn, error) {
	if Dial == nil {
		return net.Dial(network, address)
	}
	return Dial(network, address)
}

var fSlowWrite = simrt.NewFault("link.write.call.stalled.in.simulated.time")
