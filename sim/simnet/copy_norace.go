//go:build !race

package simnet

func bcopy(dst, src []byte) int      { return copy(dst, src) }
func bappend(dst, src []byte) []byte { return append(dst, src...) }
