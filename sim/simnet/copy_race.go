//go:build race

package simnet

// In race builds runtime.slicecopy and growslice are instrumented even when
// called from //go:norace functions. The link's buffers are "the network", not
// memory shared by the code under test, so data is moved with plain loops the
// detector does not see.

//go:norace
func bcopy(dst, src []byte) int {
	n := len(src)
	if len(dst) < n {
		n = len(dst)
	}
	for i := 0; i < n; i++ {
		dst[i] = src[i]
	}
	return n
}

//go:norace
func bappend(dst, src []byte) []byte {
	need := len(dst) + len(src)
	if need > cap(dst) {
		nc := 2*cap(dst) + len(src)
		nd := make([]byte, len(dst), nc)
		for i := range dst {
			nd[i] = dst[i]
		}
		dst = nd
	}
	l := len(dst)
	dst = dst[:need]
	for i := range src {
		dst[l+i] = src[i]
	}
	return dst
}
