// Package simsync is the `sync` package as the simulator sees it. Woven go-mc
// files import it under the name `sync`. Inside a simulated world every
// blocking operation blocks *in the kernel* (so the scheduler decides who
// proceeds and can detect deadlock); outside a world everything passes
// through to the real primitives.
//
// State shared between tasks is touched only in //go:norace functions; the
// happens-before edges of the real primitives are re-created explicitly with
// RaceAcquire/RaceRelease so that the race build sees exactly the
// synchronisation the code under test performs itself.
package simsync

import (
	"sync"
	"unsafe"

	"verifsim/kernel"
	"verifsim/simrt"
)

type Locker = sync.Locker

var (
	pCondSignalMulti = simrt.NewProbe("cond.signal.with>=2waiters")
	pCondBroadcast2  = simrt.NewProbe("cond.broadcast.with>=2waiters")
	pMutexContended  = simrt.NewProbe("mutex.contended")
	pPoolHandover    = simrt.NewProbe("pool.handover.between.tasks")
	pPoolReuse       = simrt.NewProbe("pool.reuse")
	pPoolFresh       = simrt.NewProbe("pool.fresh")
)

// ---------------------------------------------------------------- Mutex

type Mutex struct {
	real    sync.Mutex
	locked  bool
	waiters []*kernel.Task
}

//go:norace
func (m *Mutex) Lock() {
	w := kernel.Current()
	if w == nil {
		m.real.Lock()
		return
	}
	if w.Dead() {
		// teardown: killed tasks run their deferred calls one at a time; keep the
		// happens-before edges of the lock so the race build stays quiet
		kernel.RaceAcquire(unsafe.Pointer(m))
		return
	}
	t := w.Me()
	if t == nil {
		// scheduler/root goroutine: nothing else is running
		if m.locked {
			panic("simsync: root goroutine would block on a held mutex")
		}
		m.locked = true
		return
	}
	w.YieldT(t, "mutex.lock")
	for m.locked {
		pMutexContended.Hit()
		m.waiters = append(m.waiters, t)
		w.Block(t, "mutex.lock", "mutex")
	}
	m.locked = true
	kernel.RaceAcquire(unsafe.Pointer(m))
}

//go:norace
func (m *Mutex) TryLock() bool {
	w := kernel.Current()
	if w == nil {
		return m.real.TryLock()
	}
	if w.Dead() {
		return true
	}
	if t := w.Me(); t != nil {
		w.YieldT(t, "mutex.trylock")
	}
	if m.locked {
		return false
	}
	m.locked = true
	kernel.RaceAcquire(unsafe.Pointer(m))
	return true
}

//go:norace
func (m *Mutex) Unlock() {
	w := kernel.Current()
	if w == nil {
		m.real.Unlock()
		return
	}
	if w.Dead() {
		kernel.RaceRelease(unsafe.Pointer(m))
		m.locked = false
		return
	}
	if !m.locked {
		panic("sync: unlock of unlocked mutex")
	}
	kernel.RaceRelease(unsafe.Pointer(m))
	m.locked = false
	for i, t := range m.waiters {
		w.Wake(t)
		m.waiters[i] = nil
	}
	m.waiters = m.waiters[:0]
}

// ---------------------------------------------------------------- RWMutex

type RWMutex struct {
	real    sync.RWMutex
	writer  bool
	readers int
	waiters []*kernel.Task
	// race-annotation addresses, used exactly like sync.RWMutex uses its two
	// semaphores: readerSem is released by Unlock and acquired by RLock and
	// Lock; writerSem is release-merged by RUnlock and acquired by Lock
	readerSem, writerSem byte
}

//go:norace
func (m *RWMutex) Lock() {
	w := kernel.Current()
	if w == nil {
		m.real.Lock()
		return
	}
	if w.Dead() {
		kernel.RaceAcquire(unsafe.Pointer(&m.readerSem))
		kernel.RaceAcquire(unsafe.Pointer(&m.writerSem))
		return
	}
	t := w.Me()
	if t == nil {
		m.writer = true
		return
	}
	w.YieldT(t, "rwmutex.lock")
	for m.writer || m.readers > 0 {
		m.waiters = append(m.waiters, t)
		w.Block(t, "rwmutex.lock", "rwmutex")
	}
	m.writer = true
	kernel.RaceAcquire(unsafe.Pointer(&m.readerSem))
	kernel.RaceAcquire(unsafe.Pointer(&m.writerSem))
}

//go:norace
func (m *RWMutex) Unlock() {
	w := kernel.Current()
	if w == nil {
		m.real.Unlock()
		return
	}
	if w.Dead() {
		kernel.RaceRelease(unsafe.Pointer(&m.readerSem))
		m.writer = false
		return
	}
	if !m.writer {
		panic("sync: Unlock of unlocked RWMutex")
	}
	kernel.RaceRelease(unsafe.Pointer(&m.readerSem))
	m.writer = false
	m.wakeAll(w)
}

//go:norace
func (m *RWMutex) wakeAll(w *kernel.World) {
	for i, t := range m.waiters {
		w.Wake(t)
		m.waiters[i] = nil
	}
	m.waiters = m.waiters[:0]
}

//go:norace
func (m *RWMutex) RLock() {
	w := kernel.Current()
	if w == nil {
		m.real.RLock()
		return
	}
	if w.Dead() {
		kernel.RaceAcquire(unsafe.Pointer(&m.readerSem))
		return
	}
	t := w.Me()
	if t == nil {
		m.readers++
		return
	}
	w.YieldT(t, "rwmutex.rlock")
	for m.writer {
		m.waiters = append(m.waiters, t)
		w.Block(t, "rwmutex.rlock", "rwmutex")
	}
	m.readers++
	kernel.RaceAcquire(unsafe.Pointer(&m.readerSem))
}

//go:norace
func (m *RWMutex) RUnlock() {
	w := kernel.Current()
	if w == nil {
		m.real.RUnlock()
		return
	}
	if w.Dead() {
		kernel.RaceReleaseMerge(unsafe.Pointer(&m.writerSem))
		m.readers--
		return
	}
	if m.readers <= 0 {
		panic("sync: RUnlock of unlocked RWMutex")
	}
	kernel.RaceReleaseMerge(unsafe.Pointer(&m.writerSem))
	m.readers--
	if m.readers == 0 {
		m.wakeAll(w)
	}
}

func (m *RWMutex) RLocker() Locker { return (*rlocker)(m) }

type rlocker RWMutex

func (r *rlocker) Lock()   { (*RWMutex)(r).RLock() }
func (r *rlocker) Unlock() { (*RWMutex)(r).RUnlock() }

// ---------------------------------------------------------------- Cond

type Cond struct {
	L Locker

	once    sync.Once
	real    *sync.Cond
	waiters []*kernel.Task
}

func NewCond(l Locker) *Cond { return &Cond{L: l} }

func (c *Cond) passthrough() *sync.Cond {
	c.once.Do(func() { c.real = sync.NewCond(c.L) })
	return c.real
}

//go:norace
func (c *Cond) Wait() {
	w := kernel.Current()
	if w == nil {
		c.passthrough().Wait()
		return
	}
	if w.Dead() {
		return
	}
	t := w.Me()
	if t == nil {
		panic("simsync: Cond.Wait outside a task")
	}
	c.waiters = append(c.waiters, t)
	c.L.Unlock()
	w.Block(t, "cond.wait", "cond")
	c.L.Lock()
}

//go:norace
func (c *Cond) Signal() {
	w := kernel.Current()
	if w == nil {
		c.passthrough().Signal()
		return
	}
	if w.Dead() {
		return
	}
	if t := w.Me(); t != nil {
		w.YieldT(t, "cond.signal")
	}
	n := len(c.waiters)
	if n == 0 {
		return
	}
	if n >= 2 {
		pCondSignalMulti.Hit()
	}
	// sync.Cond promises "one goroutine", not which one
	i := w.T.Choose(n)
	t := c.waiters[i]
	// (no copy(): runtime.slicecopy is race-instrumented even when called from a
	// norace function, and this array is shared between tasks on purpose)
	for j := i; j < n-1; j++ {
		c.waiters[j] = c.waiters[j+1]
	}
	c.waiters[n-1] = nil
	c.waiters = c.waiters[:n-1]
	w.Wake(t)
}

//go:norace
func (c *Cond) Broadcast() {
	w := kernel.Current()
	if w == nil {
		c.passthrough().Broadcast()
		return
	}
	if w.Dead() {
		return
	}
	if t := w.Me(); t != nil {
		w.YieldT(t, "cond.broadcast")
	}
	if len(c.waiters) >= 2 {
		pCondBroadcast2.Hit()
	}
	for i, t := range c.waiters {
		w.Wake(t)
		c.waiters[i] = nil
	}
	c.waiters = c.waiters[:0]
}

// ---------------------------------------------------------------- Pool

const (
	poolLIFO = iota
	poolRandom
	poolFresh
	poolDropHalf
)

type poolBox struct {
	v     any
	owner int // task id that put it
}

type Pool struct {
	New func() any

	once   sync.Once
	real   sync.Pool
	epoch  uint64
	policy int
	free   []*poolBox
}

func (p *Pool) passthrough() *sync.Pool {
	p.once.Do(func() { p.real.New = p.New })
	return &p.real
}

//go:norace
func (p *Pool) enter(w *kernel.World) {
	if p.epoch != w.Epoch {
		p.epoch = w.Epoch
		// drop the previous world's objects for real (a truncated slice would keep
		// them reachable through its backing array: buffers of megabytes pile up)
		for i := range p.free {
			p.free[i] = nil
		}
		p.free = nil
		p.policy = w.T.Pick(5, 3, 1, 2)
	}
}

//go:norace
func (p *Pool) Get() any {
	w := kernel.Current()
	if w == nil {
		return p.passthrough().Get()
	}
	if w.Dead() {
		if p.New != nil {
			return p.New()
		}
		return nil
	}
	me := -1
	if t := w.Me(); t != nil {
		w.YieldT(t, "pool.get")
		me = t.ID
	}
	p.enter(w)
	n := len(p.free)
	idx := -1
	if n > 0 {
		switch p.policy {
		case poolLIFO:
			idx = n - 1
		case poolRandom:
			idx = w.T.Choose(n+1) - 1 // -1 => fresh
		case poolFresh:
			idx = -1
		case poolDropHalf:
			if w.T.Bool(1, 2) {
				idx = n - 1
			} else {
				// GC took it
				p.free[n-1] = nil
				p.free = p.free[:n-1]
			}
		}
	}
	if idx < 0 {
		pPoolFresh.Hit()
		if p.New != nil {
			return p.New()
		}
		return nil
	}
	b := p.free[idx]
	for j := idx; j < len(p.free)-1; j++ {
		p.free[j] = p.free[j+1]
	}
	p.free[len(p.free)-1] = nil
	p.free = p.free[:len(p.free)-1]
	pPoolReuse.Hit()
	if b.owner != me {
		pPoolHandover.Hit()
	}
	kernel.RaceAcquire(unsafe.Pointer(b))
	return b.v
}

//go:norace
func (p *Pool) Put(x any) {
	w := kernel.Current()
	if w == nil {
		p.passthrough().Put(x)
		return
	}
	if w.Dead() || x == nil {
		return
	}
	me := -1
	if t := w.Me(); t != nil {
		w.YieldT(t, "pool.put")
		me = t.ID
	}
	p.enter(w)
	if p.policy == poolFresh {
		return // this run's pool never hands anything back (the GC always wins)
	}
	b := &poolBox{v: x, owner: me}
	kernel.RaceReleaseMerge(unsafe.Pointer(b))
	if len(p.free) >= 32 {
		// bounded like a real pool under GC pressure: the oldest object goes
		for j := 0; j < len(p.free)-1; j++ {
			p.free[j] = p.free[j+1]
		}
		p.free[len(p.free)-1] = b
		return
	}
	p.free = append(p.free, b)
}

// ---------------------------------------------------------------- Map

type mapEntry struct {
	k, v any
}

// Map is run-scoped: its contents are dropped at the start of every world so
// that a run does not depend on what ran before it in the same process.
type Map struct {
	real    sync.Map
	epoch   uint64
	entries []mapEntry
}

//go:norace
func (m *Map) enter(w *kernel.World, site string) {
	if t := w.Me(); t != nil {
		w.YieldT(t, site)
	}
	if m.epoch != w.Epoch {
		m.epoch = w.Epoch
		m.entries = nil
	}
}

//go:norace
func (m *Map) find(k any) int {
	for i := range m.entries {
		if m.entries[i].k == k {
			return i
		}
	}
	return -1
}

//go:norace
func (m *Map) Load(k any) (any, bool) {
	w := kernel.Current()
	if w == nil || w.Dead() {
		return m.real.Load(k)
	}
	m.enter(w, "map.load")
	if i := m.find(k); i >= 0 {
		kernel.RaceAcquire(unsafe.Pointer(&m.entries[i]))
		return m.entries[i].v, true
	}
	return nil, false
}

//go:norace
func (m *Map) Store(k, v any) {
	w := kernel.Current()
	if w == nil || w.Dead() {
		m.real.Store(k, v)
		return
	}
	m.enter(w, "map.store")
	m.store(k, v)
}

//go:norace
func (m *Map) store(k, v any) {
	if i := m.find(k); i >= 0 {
		m.entries[i].v = v
		kernel.RaceReleaseMerge(unsafe.Pointer(&m.entries[i]))
		return
	}
	// entries are never moved once created (append may copy the slice header
	// but Acquire/Release use the element address, so keep capacity ample)
	if m.entries == nil {
		m.entries = make([]mapEntry, 0, 4096)
	}
	if len(m.entries) == cap(m.entries) {
		panic("simsync.Map: too many entries")
	}
	m.entries = append(m.entries, mapEntry{k, v})
	kernel.RaceReleaseMerge(unsafe.Pointer(&m.entries[len(m.entries)-1]))
}

//go:norace
func (m *Map) LoadOrStore(k, v any) (any, bool) {
	w := kernel.Current()
	if w == nil || w.Dead() {
		return m.real.LoadOrStore(k, v)
	}
	m.enter(w, "map.loadorstore")
	if i := m.find(k); i >= 0 {
		kernel.RaceAcquire(unsafe.Pointer(&m.entries[i]))
		return m.entries[i].v, true
	}
	m.store(k, v)
	return v, false
}

//go:norace
func (m *Map) LoadAndDelete(k any) (any, bool) {
	w := kernel.Current()
	if w == nil || w.Dead() {
		return m.real.LoadAndDelete(k)
	}
	m.enter(w, "map.loadanddelete")
	if i := m.find(k); i >= 0 {
		kernel.RaceAcquire(unsafe.Pointer(&m.entries[i]))
		v := m.entries[i].v
		m.entries[i] = mapEntry{k: new(int)} // tombstone (never equal to a key)
		return v, true
	}
	return nil, false
}

//go:norace
func (m *Map) Delete(k any) { m.LoadAndDelete(k) }

//go:norace
func (m *Map) Range(f func(k, v any) bool) {
	w := kernel.Current()
	if w == nil || w.Dead() {
		m.real.Range(f)
		return
	}
	m.enter(w, "map.range")
	for i := 0; i < len(m.entries); i++ {
		if _, tomb := m.entries[i].k.(*int); tomb && m.entries[i].v == nil {
			continue
		}
		kernel.RaceAcquire(unsafe.Pointer(&m.entries[i]))
		if !f(m.entries[i].k, m.entries[i].v) {
			return
		}
	}
}

// ---------------------------------------------------------------- WaitGroup

type WaitGroup struct {
	real    sync.WaitGroup
	n       int
	waiters []*kernel.Task
}

//go:norace
func (g *WaitGroup) Add(d int) {
	w := kernel.Current()
	if w == nil {
		g.real.Add(d)
		return
	}
	if w.Dead() {
		return
	}
	if t := w.Me(); t != nil {
		w.YieldT(t, "wg.add")
	}
	if d < 0 {
		kernel.RaceReleaseMerge(unsafe.Pointer(g))
	}
	g.n += d
	if g.n < 0 {
		panic("sync: negative WaitGroup counter")
	}
	if g.n == 0 {
		for i, t := range g.waiters {
			w.Wake(t)
			g.waiters[i] = nil
		}
		g.waiters = g.waiters[:0]
	}
}

func (g *WaitGroup) Done() { g.Add(-1) }

//go:norace
func (g *WaitGroup) Wait() {
	w := kernel.Current()
	if w == nil {
		g.real.Wait()
		return
	}
	if w.Dead() {
		return
	}
	t := w.Me()
	if t == nil {
		panic("simsync: WaitGroup.Wait outside a task")
	}
	w.YieldT(t, "wg.wait")
	for g.n > 0 {
		g.waiters = append(g.waiters, t)
		w.Block(t, "wg.wait", "waitgroup")
	}
	kernel.RaceAcquire(unsafe.Pointer(g))
}

func (g *WaitGroup) Go(f func()) {
	g.Add(1)
	simrt.Go("wg.go", func() {
		defer g.Done()
		f()
	})
}

// ---------------------------------------------------------------- Once

type Once struct {
	m    Mutex
	done bool
}

//go:norace
func (o *Once) Do(f func()) {
	if o.done {
		kernel.RaceAcquire(unsafe.Pointer(o))
		return
	}
	o.m.Lock()
	defer o.m.Unlock()
	if !o.done {
		defer func() {
			kernel.RaceReleaseMerge(unsafe.Pointer(o))
			o.done = true
		}()
		f()
	}
}

func OnceFunc(f func()) func() {
	var o Once
	return func() { o.Do(f) }
}

func OnceValue[T any](f func() T) func() T {
	var o Once
	var v T
	return func() T {
		o.Do(func() { v = f() })
		return v
	}
}

func OnceValues[T1, T2 any](f func() (T1, T2)) func() (T1, T2) {
	var o Once
	var v1 T1
	var v2 T2
	return func() (T1, T2) {
		o.Do(func() { v1, v2 = f() })
		return v1, v2
	}
}
