// Package simdisk is the simulated disk behind region files: a byte image
// with a journal of physical writes, from which crash images (any prefix of
// the journal, the last write torn at any byte) are materialised as
// copy-on-write views, plus injected write/read/seek errors.
package simdisk

import (
	"errors"
	"io"

	"verifsim/simrt"
)

var (
	ErrIO    = errors.New("simdisk: injected I/O error (EIO)")
	ErrNoSpc = errors.New("simdisk: injected no space left on device (ENOSPC)")

	fWriteErr  = simrt.NewFault("disk.write.error")
	fReadErr   = simrt.NewFault("disk.read.error")
	fSeekErr   = simrt.NewFault("disk.seek.error")
	fShortRead = simrt.NewFault("disk.short.read")
)

// Write is one physical write.
type Write struct {
	Off  int64
	Data []byte
}

// File implements io.ReadWriteSeeker over an in-memory image.
type File struct {
	Img     []byte
	Pos     int64
	Journal []Write // physical writes since the last ResetJournal
	Record  bool

	// fault injection: the FailWrite-th physical write from now (0-based)
	// accepts ShortN bytes and returns WriteErr; -1 = never.
	FailWrite int
	ShortN    int
	WriteErr  error
	FailRead  int // the n-th Read from now fails; -1 = never
	FailSeek  int
	// ReadMode: 0 = reads fill the buffer; 1 = a read never crosses a 4096-byte
	// page (a legal short read); 2 = tape-chosen short reads (needs Choose).
	ReadMode int
	Choose   func(n int) int
	nWrite   int
	nRead    int
	nSeek    int
	Closed   bool
}

func New(img []byte) *File {
	return &File{Img: img, FailWrite: -1, FailRead: -1, FailSeek: -1}
}

func (f *File) ResetJournal() { f.Journal = f.Journal[:0] }

func (f *File) ResetFaults() {
	f.FailWrite, f.FailRead, f.FailSeek = -1, -1, -1
	f.nWrite, f.nRead, f.nSeek = 0, 0, 0
}

func (f *File) Read(p []byte) (int, error) {
	simrt.Yield("disk.read")
	if f.FailRead >= 0 && f.nRead == f.FailRead {
		f.nRead++
		fReadErr.Hit()
		return 0, ErrIO
	}
	f.nRead++
	if f.Pos >= int64(len(f.Img)) {
		return 0, io.EOF
	}
	avail := len(f.Img) - int(f.Pos)
	want := len(p)
	if want > avail {
		want = avail
	}
	switch f.ReadMode {
	case 1:
		if page := 4096 - int(f.Pos%4096); want > page {
			want = page
			fShortRead.Hit()
		}
	case 2:
		if want > 1 && f.Choose != nil {
			if w := 1 + f.Choose(want); w < want {
				want = w
				fShortRead.Hit()
			}
		}
	}
	n := copy(p[:want], f.Img[f.Pos:])
	f.Pos += int64(n)
	return n, nil
}

func (f *File) writeAt(p []byte, off int64) (int, error) {
	simrt.Yield("disk.write")
	n := len(p)
	var err error
	if f.FailWrite >= 0 && f.nWrite == f.FailWrite {
		n = f.ShortN
		if n > len(p) {
			n = len(p)
		}
		err = f.WriteErr
		fWriteErr.Hit()
	}
	f.nWrite++
	if n > 0 {
		end := off + int64(n)
		oldLen := int64(len(f.Img))
		if end > oldLen {
			if end > int64(cap(f.Img)) {
				// grow geometrically without touching the new pages
				nc := 2 * int64(cap(f.Img))
				if nc < end {
					nc = end
				}
				ni := make([]byte, end, nc)
				copy(ni, f.Img)
				f.Img = ni
			} else {
				f.Img = f.Img[:end] // never written before: the image only grows
			}
		}
		// zero runs written beyond the old end need no copy (keeps huge, mostly
		// empty files cheap)
		if off >= oldLen && allZero(p[:n]) {
			// already zero
		} else {
			copy(f.Img[off:end], p[:n])
		}
	}
	if f.Record {
		f.Journal = append(f.Journal, Write{Off: off, Data: append([]byte(nil), p[:n]...)})
	}
	return n, err
}

func allZero(b []byte) bool {
	for len(b) >= 8 {
		if b[0]|b[1]|b[2]|b[3]|b[4]|b[5]|b[6]|b[7] != 0 {
			return false
		}
		b = b[8:]
	}
	for _, x := range b {
		if x != 0 {
			return false
		}
	}
	return true
}

func (f *File) Write(p []byte) (int, error) {
	n, err := f.writeAt(p, f.Pos)
	f.Pos += int64(n)
	return n, err
}

func (f *File) Seek(off int64, whence int) (int64, error) {
	if f.FailSeek >= 0 && f.nSeek == f.FailSeek {
		f.nSeek++
		fSeekErr.Hit()
		return f.Pos, ErrIO
	}
	f.nSeek++
	var np int64
	switch whence {
	case io.SeekStart:
		np = off
	case io.SeekCurrent:
		np = f.Pos + off
	case io.SeekEnd:
		np = int64(len(f.Img)) + off
	}
	if np < 0 {
		return f.Pos, errors.New("simdisk: negative position")
	}
	f.Pos = np
	return np, nil
}

func (f *File) Close() error {
	f.Closed = true
	return nil
}

// FileAt additionally implements io.WriterAt (Region.writeAt has two paths).
type FileAt struct{ *File }

func (f FileAt) WriteAt(p []byte, off int64) (int, error) { return f.File.writeAt(p, off) }

// ---------------------------------------------------------------- crash images

// View is a read-only copy-on-write image: a base plus patches. It implements
// io.ReadWriteSeeker (writes are refused) so that region.Load accepts it.
type View struct {
	Base    []byte
	Patches []Write
	Size    int64
	Pos     int64
}

// Crash builds the image after the first j writes of journal applied to base,
// with write j (if torn >= 0 and j < len(journal)) applied only for its first
// torn bytes.
func Crash(base []byte, journal []Write, j int, torn int) *View {
	v := &View{Base: base, Size: int64(len(base))}
	for i := 0; i < j && i < len(journal); i++ {
		v.Patches = append(v.Patches, journal[i])
	}
	if torn >= 0 && j < len(journal) {
		w := journal[j]
		if torn > len(w.Data) {
			torn = len(w.Data)
		}
		if torn > 0 {
			v.Patches = append(v.Patches, Write{Off: w.Off, Data: w.Data[:torn]})
		}
	}
	for _, p := range v.Patches {
		if e := p.Off + int64(len(p.Data)); e > v.Size {
			v.Size = e
		}
	}
	return v
}

func (v *View) ReadAt(p []byte, off int64) (int, error) {
	if off >= v.Size {
		return 0, io.EOF
	}
	n := len(p)
	if int64(n) > v.Size-off {
		n = int(v.Size - off)
	}
	for i := range p[:n] {
		p[i] = 0
	}
	if off < int64(len(v.Base)) {
		copy(p[:n], v.Base[off:])
	}
	for _, w := range v.Patches {
		ws, we := w.Off, w.Off+int64(len(w.Data))
		rs, re := off, off+int64(n)
		if we <= rs || ws >= re {
			continue
		}
		s, e := max(ws, rs), min(we, re)
		copy(p[s-off:e-off], w.Data[s-ws:e-ws])
	}
	return n, nil
}

func (v *View) Read(p []byte) (int, error) {
	n, err := v.ReadAt(p, v.Pos)
	v.Pos += int64(n)
	return n, err
}

func (v *View) Write(p []byte) (int, error) {
	return 0, errors.New("simdisk: crash image is read-only")
}

func (v *View) Seek(off int64, whence int) (int64, error) {
	switch whence {
	case io.SeekStart:
		v.Pos = off
	case io.SeekCurrent:
		v.Pos += off
	case io.SeekEnd:
		v.Pos = v.Size + off
	}
	return v.Pos, nil
}

// Bytes materialises the view.
func (v *View) Bytes() []byte {
	b := make([]byte, v.Size)
	v.ReadAt(b, 0)
	return b
}

// ---------------------------------------------------------------- sparse files

// Sparse is a sparse in-memory file (4 KiB pages allocated on first write):
// region files whose chunks live at very high sector numbers cost only the
// pages that were actually written. Implements io.ReadWriteSeeker, io.WriterAt
// and io.ReaderAt.
type Sparse struct {
	pages map[int64]*[4096]byte
	Size  int64
	Pos   int64
}

func NewSparse() *Sparse { return &Sparse{pages: map[int64]*[4096]byte{}} }

func (s *Sparse) ReadAt(p []byte, off int64) (int, error) {
	if off >= s.Size {
		return 0, io.EOF
	}
	n := len(p)
	if int64(n) > s.Size-off {
		n = int(s.Size - off)
	}
	for done := 0; done < n; {
		pg, po := (off+int64(done))/4096, int((off+int64(done))%4096)
		chunk := 4096 - po
		if chunk > n-done {
			chunk = n - done
		}
		if page := s.pages[pg]; page != nil {
			copy(p[done:done+chunk], page[po:po+chunk])
		} else {
			clear(p[done : done+chunk])
		}
		done += chunk
	}
	if n < len(p) {
		return n, io.EOF
	}
	return n, nil
}

func (s *Sparse) WriteAt(p []byte, off int64) (int, error) {
	for done := 0; done < len(p); {
		pg, po := (off+int64(done))/4096, int((off+int64(done))%4096)
		chunk := 4096 - po
		if chunk > len(p)-done {
			chunk = len(p) - done
		}
		page := s.pages[pg]
		if page == nil {
			if allZero(p[done : done+chunk]) {
				done += chunk
				continue
			}
			page = new([4096]byte)
			s.pages[pg] = page
		}
		copy(page[po:po+chunk], p[done:done+chunk])
		done += chunk
	}
	if e := off + int64(len(p)); e > s.Size {
		s.Size = e
	}
	return len(p), nil
}

func (s *Sparse) Read(p []byte) (int, error) {
	n, err := s.ReadAt(p, s.Pos)
	s.Pos += int64(n)
	if n > 0 {
		return n, nil
	}
	return n, err
}

func (s *Sparse) Write(p []byte) (int, error) {
	n, err := s.WriteAt(p, s.Pos)
	s.Pos += int64(n)
	return n, err
}

func (s *Sparse) Seek(off int64, whence int) (int64, error) {
	var np int64
	switch whence {
	case io.SeekStart:
		np = off
	case io.SeekCurrent:
		np = s.Pos + off
	case io.SeekEnd:
		np = s.Size + off
	}
	if np < 0 {
		return s.Pos, errors.New("simdisk: negative position")
	}
	s.Pos = np
	return np, nil
}

// NoWriterAt hides WriteAt (Region.writeAt has two paths).
type NoWriterAt struct{ S *Sparse }

func (n NoWriterAt) Read(p []byte) (int, error)         { return n.S.Read(p) }
func (n NoWriterAt) Write(p []byte) (int, error)        { return n.S.Write(p) }
func (n NoWriterAt) Seek(o int64, w int) (int64, error) { return n.S.Seek(o, w) }
