// Package anvil is an independent reader of the Anvil region file format
// (no go-mc code): 4 KiB of big-endian location entries (sector<<8 | count)
// indexed z*32+x, 4 KiB of timestamps, then sector runs each starting with a
// big-endian int32 byte length followed by the data.
package anvil

import (
	"encoding/binary"
	"fmt"
	"io"
	"sort"
)

type Entry struct {
	X, Z      int
	Sector    int
	Count     int
	Timestamp int32
}

type ReaderAt interface {
	ReadAt(p []byte, off int64) (int, error)
}

type bytesAt []byte

func (b bytesAt) ReadAt(p []byte, off int64) (int, error) {
	if off >= int64(len(b)) {
		return 0, io.EOF
	}
	n := copy(p, b[off:])
	if n < len(p) {
		return n, io.EOF
	}
	return n, nil
}

func Bytes(b []byte) ReaderAt { return bytesAt(b) }

// Header parses the two header sectors. size is the image size.
func Header(img ReaderAt, size int64) (entries []Entry, err error) {
	if size < 8192 {
		return nil, fmt.Errorf("anvil: image of %d bytes is shorter than the 8 KiB header", size)
	}
	hdr := make([]byte, 8192)
	if n, _ := img.ReadAt(hdr, 0); n < 8192 {
		return nil, fmt.Errorf("anvil: cannot read header")
	}
	for z := 0; z < 32; z++ {
		for x := 0; x < 32; x++ {
			i := 4 * (z*32 + x)
			loc := binary.BigEndian.Uint32(hdr[i:])
			if loc == 0 {
				continue
			}
			entries = append(entries, Entry{X: x, Z: z, Sector: int(loc >> 8), Count: int(loc & 0xff),
				Timestamp: int32(binary.BigEndian.Uint32(hdr[4096+i:]))})
		}
	}
	return entries, nil
}

// Timestamps returns the on-disk timestamp table indexed [z][x].
func Timestamps(img ReaderAt) (ts [32][32]int32) {
	hdr := make([]byte, 4096)
	img.ReadAt(hdr, 4096)
	for z := 0; z < 32; z++ {
		for x := 0; x < 32; x++ {
			ts[z][x] = int32(binary.BigEndian.Uint32(hdr[4*(z*32+x):]))
		}
	}
	return
}

// CheckLayout verifies the structural invariants of the entries, except for
// the one chunk (skipX, skipZ) when skip is true: sector >= 2, count >= 1,
// runs pairwise disjoint.
func CheckLayout(entries []Entry, skip bool, skipX, skipZ int) error {
	var es []Entry
	for _, e := range entries {
		if skip && e.X == skipX && e.Z == skipZ {
			continue
		}
		if e.Sector < 2 {
			return fmt.Errorf("chunk (%d,%d): sector run starts at sector %d, inside the header", e.X, e.Z, e.Sector)
		}
		if e.Count < 1 {
			return fmt.Errorf("chunk (%d,%d): sector count %d", e.X, e.Z, e.Count)
		}
		es = append(es, e)
	}
	sort.Slice(es, func(i, j int) bool { return es[i].Sector < es[j].Sector })
	for i := 1; i < len(es); i++ {
		if es[i-1].Sector+es[i-1].Count > es[i].Sector {
			return fmt.Errorf("chunks (%d,%d) [sectors %d..%d] and (%d,%d) [sectors %d..%d] share a sector",
				es[i-1].X, es[i-1].Z, es[i-1].Sector, es[i-1].Sector+es[i-1].Count-1,
				es[i].X, es[i].Z, es[i].Sector, es[i].Sector+es[i].Count-1)
		}
	}
	return nil
}

// Chunk reads the data of one entry.
func Chunk(img ReaderAt, size int64, e Entry) ([]byte, error) {
	off := int64(e.Sector) * 4096
	var lb [4]byte
	if n, _ := img.ReadAt(lb[:], off); n < 4 {
		return nil, fmt.Errorf("chunk (%d,%d): image ends before the length field at %d", e.X, e.Z, off)
	}
	l := int32(binary.BigEndian.Uint32(lb[:]))
	if l < 1 {
		return nil, fmt.Errorf("chunk (%d,%d): declared length %d", e.X, e.Z, l)
	}
	if int(l)+4 > e.Count*4096 {
		return nil, fmt.Errorf("chunk (%d,%d): declared length %d does not fit into %d sectors", e.X, e.Z, l, e.Count)
	}
	if off+4+int64(l) > size {
		return nil, fmt.Errorf("chunk (%d,%d): image (%d bytes) ends before the end of the data (%d)", e.X, e.Z, size, off+4+int64(l))
	}
	data := make([]byte, l)
	if n, _ := img.ReadAt(data, off+4); n < int(l) {
		return nil, fmt.Errorf("chunk (%d,%d): short read of data", e.X, e.Z)
	}
	return data, nil
}
