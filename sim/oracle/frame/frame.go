// Package frame is an independent reader for Minecraft protocol frames. It
// shares no code with go-mc: its own LEB128 reader plus compress/zlib.
package frame

import (
	"bytes"
	"compress/zlib"
	"errors"
	"fmt"
	"io"
)

type Frame struct {
	HeaderLen  int  // bytes of the total-length VarInt
	Total      int  // declared total length
	Compressed bool // data-length field present and non-zero
	DataLen    int  // value of the data-length field (compression enabled only)
	ID         int32
	Payload    []byte
	Raw        []byte // the whole frame including the length prefix
}

var ErrShort = errors.New("frame: stream ends inside a frame")

// varint decodes a protocol VarInt (LEB128, at most 5 bytes, int32).
func varint(b []byte) (v int32, n int, err error) {
	var u uint32
	for i := 0; i < 5; i++ {
		if i >= len(b) {
			return 0, 0, ErrShort
		}
		u |= uint32(b[i]&0x7f) << (7 * uint(i))
		if b[i]&0x80 == 0 {
			return int32(u), i + 1, nil
		}
	}
	return 0, 0, errors.New("frame: VarInt longer than 5 bytes")
}

// PutVarint appends the minimal VarInt encoding of v.
func PutVarint(dst []byte, v int32) []byte {
	u := uint32(v)
	for {
		if u&^0x7f == 0 {
			return append(dst, byte(u))
		}
		dst = append(dst, byte(u&0x7f|0x80))
		u >>= 7
	}
}

// Next parses one frame from the start of b. compression says whether the
// stream uses the compressed format; threshold is only used for the
// conformance check "data length >= threshold".
func Next(b []byte, compression bool, threshold int) (*Frame, []byte, error) {
	total, hl, err := varint(b)
	if err != nil {
		return nil, b, err
	}
	if total < 0 {
		return nil, b, fmt.Errorf("frame: negative total length %d", total)
	}
	if len(b) < hl+int(total) {
		return nil, b, ErrShort
	}
	f := &Frame{HeaderLen: hl, Total: int(total), Raw: b[:hl+int(total)]}
	body := b[hl : hl+int(total)]
	rest := b[hl+int(total):]
	if !compression {
		id, n, err := varint(body)
		if err != nil {
			return nil, b, fmt.Errorf("frame: packet id: %v", err)
		}
		f.ID, f.Payload = id, body[n:]
		return f, rest, nil
	}
	dl, n, err := varint(body)
	if err != nil {
		return nil, b, fmt.Errorf("frame: data length: %v", err)
	}
	body = body[n:]
	f.DataLen = int(dl)
	if dl == 0 {
		id, n, err := varint(body)
		if err != nil {
			return nil, b, fmt.Errorf("frame: packet id: %v", err)
		}
		f.ID, f.Payload = id, body[n:]
		return f, rest, nil
	}
	f.Compressed = true
	if dl < 0 {
		return nil, b, fmt.Errorf("frame: negative data length %d", dl)
	}
	if int(dl) < threshold {
		return nil, b, fmt.Errorf("frame: compressed frame with data length %d below threshold %d", dl, threshold)
	}
	br := bytes.NewReader(body)
	zr, err := zlib.NewReader(br)
	if err != nil {
		return nil, b, fmt.Errorf("frame: zlib header: %v", err)
	}
	plain, err := io.ReadAll(zr)
	if err != nil {
		return nil, b, fmt.Errorf("frame: inflate: %v", err)
	}
	if br.Len() != 0 {
		return nil, b, fmt.Errorf("frame: %d bytes after the end of the zlib stream inside the frame", br.Len())
	}
	if len(plain) != int(dl) {
		return nil, b, fmt.Errorf("frame: data length says %d but zlib stream inflates to %d bytes", dl, len(plain))
	}
	id, n, err := varint(plain)
	if err != nil {
		return nil, b, fmt.Errorf("frame: packet id: %v", err)
	}
	f.ID, f.Payload = id, plain[n:]
	return f, rest, nil
}

// Build encodes a frame the way the protocol specifies (used for forged and
// reference input; never compared byte-for-byte with go-mc's output when
// compressed, because the compression level is free).
func Build(id int32, payload []byte, compression bool, compress bool) []byte {
	inner := PutVarint(nil, id)
	inner = append(inner, payload...)
	if !compression {
		out := PutVarint(nil, int32(len(inner)))
		return append(out, inner...)
	}
	var body []byte
	if !compress {
		body = append([]byte{0}, inner...)
	} else {
		body = PutVarint(nil, int32(len(inner)))
		var zb bytes.Buffer
		zw := zlib.NewWriter(&zb)
		zw.Write(inner)
		zw.Close()
		body = append(body, zb.Bytes()...)
	}
	out := PutVarint(nil, int32(len(body)))
	return append(out, body...)
}
