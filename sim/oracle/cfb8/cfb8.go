// Package cfb8 is the byte-at-a-time definition of AES-CFB8, used as the
// reference: o = E_k(sr)[0]; c = p ^ o; sr = sr[1:] || c.
package cfb8

import (
	"crypto/aes"
	"crypto/cipher"
)

type Ref struct {
	b  cipher.Block
	sr []byte
	de bool
}

func New(key, iv []byte, decrypt bool) *Ref {
	b, err := aes.NewCipher(key)
	if err != nil {
		panic(err)
	}
	return &Ref{b: b, sr: append([]byte(nil), iv...), de: decrypt}
}

// Apply transforms src and returns the result; state carries over.
func (r *Ref) Apply(src []byte) []byte {
	out := make([]byte, len(src))
	var tmp [16]byte
	for i, p := range src {
		r.b.Encrypt(tmp[:], r.sr)
		c := p ^ tmp[0]
		out[i] = c
		fb := c
		if r.de {
			fb = p
		}
		copy(r.sr, r.sr[1:])
		r.sr[len(r.sr)-1] = fb
	}
	return out
}
