// Package fifo is the sequential reference model "FIFO queue with close"
// checked against recorded concurrent histories with porcupine.
package fifo

import (
	"time"

	"github.com/anishathalye/porcupine"
)

const (
	OpPush = iota
	OpPull
	OpClose
)

type In struct {
	Op  int
	Val int // 1..250, unique per history
}

type Out struct {
	Ok  bool
	Val int
}

// state: string of queued values followed by 'C' (0xFF) if closed; Cap is
// fixed per history and carried in the first byte (0xFE = unbounded).
func Model(capacity int) porcupine.Model {
	return porcupine.Model{
		Init: func() interface{} { return "" },
		Step: func(st, in, out interface{}) (bool, interface{}) {
			s := st.(string)
			i := in.(In)
			o := out.(Out)
			closed := len(s) > 0 && s[len(s)-1] == 0xFF
			q := s
			if closed {
				q = s[:len(s)-1]
			}
			switch i.Op {
			case OpPush:
				if closed {
					return false, st // harness never pushes after close
				}
				if capacity >= 0 && len(q) >= capacity {
					return !o.Ok, st
				}
				if !o.Ok {
					return false, st // refusal only when full
				}
				return true, q + string([]byte{byte(i.Val)})
			case OpPull:
				if len(q) > 0 {
					if !o.Ok || o.Val != int(q[0]) {
						return false, st
					}
					r := q[1:]
					if closed {
						r += "\xff"
					}
					return true, r
				}
				if closed {
					return !o.Ok, st
				}
				return false, st // would block: cannot have returned
			case OpClose:
				if closed {
					return true, st
				}
				return true, q + "\xff"
			}
			return false, st
		},
		Equal: func(a, b interface{}) bool { return a.(string) == b.(string) },
	}
}

type Op struct {
	Client    int
	In        In
	Out       Out
	Call, Ret int64
}

// Check returns porcupine's verdict: "ok", "illegal" or "unknown".
func Check(capacity int, ops []Op, timeout time.Duration) string {
	pops := make([]porcupine.Operation, len(ops))
	for i, o := range ops {
		pops[i] = porcupine.Operation{ClientId: o.Client, Input: o.In, Call: o.Call, Output: o.Out, Return: o.Ret}
	}
	switch porcupine.CheckOperationsTimeout(Model(capacity), pops, timeout) {
	case porcupine.Ok:
		return "ok"
	case porcupine.Illegal:
		return "illegal"
	}
	return "unknown"
}
