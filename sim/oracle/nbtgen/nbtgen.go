// Package nbtgen generates NBT trees over the full tag grammar and serialises
// them with its own ~80-line writer (no go-mc code), so that the documents fed
// to the decoders under test are valid by construction.
package nbtgen

import (
	"encoding/binary"
	"math"

	"verifsim/tape"
)

const (
	End byte = iota
	Byte
	Short
	Int
	Long
	Float
	Double
	ByteArray
	String
	List
	Compound
	IntArray
	LongArray
)

// Mega allows payloads above 1 MiB (set by harnesses that can afford them).
var Mega bool

type Node struct {
	Tag      byte
	Num      uint64 // integer value or IEEE bits
	Str      string
	Bytes    []byte
	Ints     []int32
	Longs    []int64
	ListType byte
	List     []*Node
	Keys     []string
	Vals     []*Node
}

func putStr(dst []byte, s string) []byte {
	dst = binary.BigEndian.AppendUint16(dst, uint16(len(s)))
	return append(dst, s...)
}

// Payload appends the tag payload (no type byte, no name).
func (n *Node) Payload(dst []byte) []byte {
	switch n.Tag {
	case Byte:
		dst = append(dst, byte(n.Num))
	case Short:
		dst = binary.BigEndian.AppendUint16(dst, uint16(n.Num))
	case Int, Float:
		dst = binary.BigEndian.AppendUint32(dst, uint32(n.Num))
	case Long, Double:
		dst = binary.BigEndian.AppendUint64(dst, n.Num)
	case ByteArray:
		dst = binary.BigEndian.AppendUint32(dst, uint32(len(n.Bytes)))
		dst = append(dst, n.Bytes...)
	case String:
		dst = putStr(dst, n.Str)
	case List:
		dst = append(dst, n.ListType)
		dst = binary.BigEndian.AppendUint32(dst, uint32(len(n.List)))
		for _, e := range n.List {
			dst = e.Payload(dst)
		}
	case Compound:
		for i, k := range n.Keys {
			dst = append(dst, n.Vals[i].Tag)
			dst = putStr(dst, k)
			dst = n.Vals[i].Payload(dst)
		}
		dst = append(dst, End)
	case IntArray:
		dst = binary.BigEndian.AppendUint32(dst, uint32(len(n.Ints)))
		for _, v := range n.Ints {
			dst = binary.BigEndian.AppendUint32(dst, uint32(v))
		}
	case LongArray:
		dst = binary.BigEndian.AppendUint32(dst, uint32(len(n.Longs)))
		for _, v := range n.Longs {
			dst = binary.BigEndian.AppendUint64(dst, uint64(v))
		}
	}
	return dst
}

// Doc serialises a whole document: file format (type, name, payload) or
// network format (type, payload).
func Doc(root *Node, name string, network bool) []byte {
	dst := []byte{root.Tag}
	if !network {
		dst = putStr(dst, name)
	}
	return root.Payload(dst)
}

func num(t *tape.Tape, bits uint) uint64 {
	switch t.Choose(6) {
	case 0:
		return 0
	case 1:
		return 1
	case 2:
		return ^uint64(0) // -1
	case 3:
		return uint64(1)<<(bits-1) - 1 // max
	case 4:
		return uint64(1) << (bits - 1) // min
	}
	return t.U64()
}

func key(t *tape.Tape) string {
	switch t.Choose(5) {
	case 0:
		return ""
	case 1:
		return "k"
	case 2:
		return "Key With Space"
	case 3:
		return "\xe4\xb8\xad\xe6\x96\x87"
	}
	b := make([]byte, 1+t.Choose(12))
	for i := range b {
		b[i] = byte('a' + t.Choose(26))
	}
	return string(b)
}

func str(t *tape.Tape) string {
	n := 0
	switch t.Choose(4) {
	case 0:
		n = 0
	case 1:
		n = 1 + t.Choose(8)
	case 2:
		n = t.Choose(64)
	default:
		n = t.Choose(300)
	}
	b := make([]byte, n)
	for i := range b {
		b[i] = byte(' ' + t.Choose(95))
	}
	return string(b)
}

// GenTag generates a node of the given tag; depth bounds nesting.
func GenTag(t *tape.Tape, tag byte, depth int) *Node {
	n := &Node{Tag: tag}
	switch tag {
	case Byte:
		n.Num = num(t, 8) & 0xff
	case Short:
		n.Num = num(t, 16) & 0xffff
	case Int:
		n.Num = num(t, 32) & 0xffffffff
	case Long:
		n.Num = num(t, 64)
	case Float:
		n.Num = uint64(math.Float32bits(float32(int32(num(t, 32))) / 7))
	case Double:
		n.Num = math.Float64bits(float64(int64(num(t, 64))) / 7)
	case ByteArray:
		cnt := t.Choose(40)
		if t.Bool(1, 40) {
			cnt = 4090 + t.Choose(5000)
		}
		if Mega && t.Bool(1, 60) {
			n.Bytes = megaBytes(t)
			break
		}
		n.Bytes = t.Bytes(cnt)
	case String:
		n.Str = str(t)
	case IntArray:
		cnt := t.Choose(8)
		if t.Bool(1, 40) {
			cnt = 1020 + t.Choose(2000) // beyond typical batch/buffer sizes
		}
		if t.Bool(1, 10) {
			// k*2^j (+-1): counts that are special only because of an internal
			// block or batch size of the codec (C09-35)
			cnt = (1+t.Choose(8))<<(4+t.Choose(6)) + []int{0, 0, 1, -1}[t.Choose(4)]
		}
		n.Ints = make([]int32, cnt)
		for i := range n.Ints {
			n.Ints[i] = int32(num(t, 32))
		}
	case LongArray:
		cnt := t.Choose(6)
		if t.Bool(1, 40) {
			cnt = 510 + t.Choose(1000)
		}
		if t.Bool(1, 10) {
			// k*2^j (+-1): counts that are special only because of an internal
			// block or batch size of the codec (C09-35)
			cnt = (1+t.Choose(8))<<(4+t.Choose(6)) + []int{0, 0, 1, -1}[t.Choose(4)]
		}
		n.Longs = make([]int64, cnt)
		for i := range n.Longs {
			n.Longs[i] = int64(num(t, 64))
		}
	case List:
		cnt := t.Choose(5)
		if depth <= 0 {
			n.ListType = []byte{Byte, Short, Int, Long, Float, Double, String, ByteArray, IntArray, LongArray}[t.Choose(10)]
		} else {
			n.ListType = 1 + byte(t.Choose(12))
		}
		if cnt == 0 && t.Bool(1, 2) {
			n.ListType = End // empty list of End
		}
		for i := 0; i < cnt; i++ {
			n.List = append(n.List, GenTag(t, n.ListType, depth-1))
		}
	case Compound:
		cnt := t.Choose(6)
		if depth <= 0 {
			cnt = t.Choose(3)
		}
		seen := map[string]bool{}
		for i := 0; i < cnt; i++ {
			k := key(t)
			if seen[k] {
				continue
			}
			seen[k] = true
			var tag byte
			if depth <= 0 {
				tag = []byte{Byte, Short, Int, Long, Float, Double, String, ByteArray, IntArray, LongArray}[t.Choose(10)]
			} else {
				tag = 1 + byte(t.Choose(12))
			}
			n.Keys = append(n.Keys, k)
			n.Vals = append(n.Vals, GenTag(t, tag, depth-1))
		}
	}
	return n
}

// Gen generates a random tree with any of the 12 tags at the root.
func Gen(t *tape.Tape, depth int) *Node {
	if Mega && t.Bool(1, 16) {
		// the document is one huge array: nothing follows it in the stream
		return &Node{Tag: ByteArray, Bytes: megaBytes(t)}
	}
	return GenTag(t, 1+byte(t.Choose(12)), depth)
}

// megaBytes is a payload above 1 MiB (beyond any "small payload" shortcut); its
// content comes from a private stream: one tape value, not a million.
func megaBytes(t *tape.Tape) []byte {
	cnt := 1<<20 + 1 + t.Choose(70000)
	x := t.U64()
	b := make([]byte, cnt)
	for i := range b {
		x += 0x9E3779B97F4A7C15
		z := x
		z = (z ^ (z >> 30)) * 0xBF58476D1CE4E5B9
		z = (z ^ (z >> 27)) * 0x94D049BB133111EB
		b[i] = byte(z ^ (z >> 31))
	}
	return b
}
