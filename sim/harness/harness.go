// Package harness is shared by all property test binaries: it runs scenarios
// from a tape, collects statistics, minimises failing tapes and writes replay
// files. One process explores one world at a time.
package harness

import (
	"encoding/binary"
	"encoding/json"
	"fmt"
	"os"
	"runtime"
	"runtime/debug"
	"runtime/metrics"
	"sort"
	"strconv"
	"strings"
	"sync/atomic"
	"testing"
	"testing/synctest"
	"time"

	"verifsim/kernel"
	"verifsim/simrt"
	"verifsim/tape"
)

var pPreemptions = simrt.NewProbe("scheduler.statement-level.preemptions")

// Violation is what an oracle reports. (Oracle, Op, Detail) is the signature
// used for shrinking, replay verification and known-findings matching; it
// must not contain run-specific data (seeds, offsets, addresses).
type Violation struct {
	Oracle  string `json:"oracle"`
	Op      string `json:"op"`
	Detail  string `json:"detail"`
	Message string `json:"message"`
}

func (v *Violation) Sig() string { return v.Oracle + "|" + v.Op + "|" + v.Detail }

// Ctx is handed to a scenario for one run.
type Ctx struct {
	T     *tape.Tape
	TB    *testing.T
	Tier  string
	Trace bool // replay mode: collect human-readable trace

	Viol       *Violation
	Scenario   string
	Config     map[string]any
	Log        []string // human-readable trace (bounded)
	Hash       uint64   // event-log hash (scenario folds results in)
	FP         uint64   // schedule/state fingerprint for distinctness
	Nontrivial bool     // at least one fault/preemption/interesting branch fired
	Evals      int64    // evaluations this run stands for (default 1)
	Steps      int
	SimTime    time.Duration
	Policy     string
	Infra      string // infrastructure problem (exit 2), not a violation
	Porcupine  [3]int // ok, illegal, unknown
}

// Fail records the first violation of the run.
//
//go:norace
func (c *Ctx) Fail(oracle, op, detail, format string, a ...any) {
	if c.Viol == nil {
		c.Viol = &Violation{Oracle: oracle, Op: op, Detail: detail, Message: fmt.Sprintf(format, a...)}
	}
}

//go:norace
func (c *Ctx) Failed() bool { return c.Viol != nil }

// Logf appends to the human-readable trace. Never draws from the tape.
func (c *Ctx) Logf(format string, a ...any) {
	if len(c.Log) < 400 {
		c.Log = append(c.Log, fmt.Sprintf(format, a...))
	}
}

// Fold mixes an observation into the event hash.
func (c *Ctx) Fold(vals ...uint64) {
	h := c.Hash
	if h == 0 {
		h = 1469598103934665603
	}
	for _, v := range vals {
		h ^= v
		h *= 1099511628211
	}
	c.Hash = h
}

func (c *Ctx) FoldBytes(b []byte) {
	h := c.Hash
	if h == 0 {
		h = 1469598103934665603
	}
	for _, v := range b {
		h ^= uint64(v)
		h *= 1099511628211
	}
	c.Hash = h
}

func HashString(s string) uint64 {
	h := uint64(1469598103934665603)
	for i := 0; i < len(s); i++ {
		h ^= uint64(s[i])
		h *= 1099511628211
	}
	return h
}

// World runs body as the root of a synctest bubble with a fresh kernel world.
// setup starts the initial tasks; the scheduler then runs to completion.
func (c *Ctx) World(setup func(w *kernel.World)) (out kernel.Outcome, w *kernel.World) {
	// The bubble runs on its own goroutine: when the race build's detector has
	// fired, the testing package fails the bubble's inner test and leaves with
	// runtime.Goexit, which must not take the worker loop with it. Everything
	// this function returns has been computed by then.
	done := make(chan struct{})
	go func() {
		defer close(done)
		defer func() {
			if r := recover(); r != nil {
				s := fmt.Sprint(r)
				if strings.Contains(s, "deadlock: main bubble goroutine has exited") {
					// goroutines of the code under test that stayed blocked in a
					// runtime primitive after teardown; counted as leaked
					return
				}
				c.Infra = "panic in bubble root: " + s + "\n" + string(debug.Stack())
			}
		}()
		synctest.Test(c.TB, func(_ *testing.T) {
			w = kernel.NewWorld(c.T)
			w.TraceOn = c.Trace
			if c.Tier == "thorough" {
				w.MaxPreempt = 20000
			}
			setup(w)
			out = w.Run()
			c.Steps += w.Steps
			c.SimTime += w.Since()
			c.Policy = w.Policy
			c.Fold(w.Hash)
			if c.FP == 0 {
				c.FP = w.SchedHash
			} else {
				c.FP = c.FP*1099511628211 ^ w.SchedHash
			}
			if w.Switches > len(w.Tasks()) {
				c.Nontrivial = true
			}
			pPreemptions.Add(w.Preemptions)
			if c.Trace {
				for _, te := range w.Trace {
					if te.Task == "fault" {
						c.Logf("step %d FAULT %s", te.Step, te.Site)
					} else {
						c.Logf("step %d %s @%s", te.Step, te.Task, te.Site)
					}
				}
			}
		})
	}()
	<-done
	return
}

// TaskPanics turns a panic inside any task into a violation (oracle "panic").
func (c *Ctx) TaskPanics(w *kernel.World, op string) {
	for _, t := range w.Tasks() {
		if t.Panic != nil {
			c.Fail("panic", op, t.Name, "task %s panicked: %v\n%s", t.Name, t.Panic, t.PanicAt)
		}
	}
}

// ---------------------------------------------------------------- scenarios

type Scenario struct {
	Name   string
	Weight int
	Run    func(c *Ctx)
}

type Property struct {
	ID        string
	Scenarios []Scenario
	// Components for the evidence file.
	Real, Stub, NotRun []string
	Rule               string
	Assumptions        []string
}

func (p *Property) pick(run uint64) *Scenario {
	total := 0
	for _, s := range p.Scenarios {
		total += s.Weight
	}
	// a fixed hash of the run index (not of the seed: a run index means the same
	// scenario under every seed). It must not correlate with the worker stride,
	// or some workers get only the expensive scenarios and hit the budget.
	z := run + 0x9E3779B97F4A7C15
	z = (z ^ (z >> 30)) * 0xBF58476D1CE4E5B9
	z = (z ^ (z >> 27)) * 0x94D049BB133111EB
	v := int((z ^ (z >> 31)) % uint64(total))
	for i := range p.Scenarios {
		if v < p.Scenarios[i].Weight {
			return &p.Scenarios[i]
		}
		v -= p.Scenarios[i].Weight
	}
	return &p.Scenarios[len(p.Scenarios)-1]
}

func (p *Property) byName(n string) *Scenario {
	for i := range p.Scenarios {
		if p.Scenarios[i].Name == n {
			return &p.Scenarios[i]
		}
	}
	return nil
}

func runSeed(seed, run uint64) uint64 {
	z := seed + run*0x9E3779B97F4A7C15 + 0x632BE59BD9B4E019
	z = (z ^ (z >> 30)) * 0xBF58476D1CE4E5B9
	z = (z ^ (z >> 27)) * 0x94D049BB133111EB
	return z ^ (z >> 31)
}

// ---------------------------------------------------------------- worker

type WorkerCfg struct {
	Property  string   `json:"property"`
	Tier      string   `json:"tier"`
	Seed      uint64   `json:"seed"`
	Worker    int      `json:"worker"`
	Workers   int      `json:"workers"`
	Runs      int      `json:"runs"`     // total runs over all workers (0 = until budget)
	BudgetS   float64  `json:"budget_s"` // wall-clock budget for this worker
	Out       string   `json:"out"`
	Replay    string   `json:"replay"`     // replay file to reproduce
	ReplayDir string   `json:"replay_dir"` // where to write new replay files
	Known     []Known  `json:"known"`
	Build     string   `json:"build"` // plain | race
	Only      []string `json:"only"`  // restrict to these scenarios
	HashOnly  bool     `json:"hash_only"`
	Reverse   bool     `json:"reverse"`
	WeaveDig  string   `json:"weave_digest"`
}

type Known struct {
	Status    string    `json:"status"`
	Property  string    `json:"property"`
	Signature Violation `json:"signature"`
	What      string    `json:"what"`
	Commit    string    `json:"commit,omitempty"`
}

type ReplayFile struct {
	Property  string         `json:"property"`
	Scenario  string         `json:"scenario"`
	Tier      string         `json:"tier"`
	Seed      uint64         `json:"seed"`
	Run       uint64         `json:"run"`
	Build     string         `json:"build"`
	Config    map[string]any `json:"config"`
	Tape      []uint64       `json:"tape"`
	Trace     []string       `json:"trace"`
	Violation Violation      `json:"violation"`
	EventHash string         `json:"event_hash"`
	WeaveDig  string         `json:"weave_digest"`
	OrigDraws int            `json:"original_draws"`
	Shrink    map[string]any `json:"shrink"`
}

type WorkerOut struct {
	Property    string           `json:"property"`
	Worker      int              `json:"worker"`
	Build       string           `json:"build"`
	Runs        int64            `json:"runs"`
	Evals       int64            `json:"evals"`
	Steps       int64            `json:"steps"`
	SimTimeS    float64          `json:"sim_time_s"`
	WallS       float64          `json:"wall_s"`
	FirstRun    uint64           `json:"first_run"`
	LastRun     uint64           `json:"last_run"`
	Scenarios   map[string]int64 `json:"scenarios"`
	Policies    map[string]int64 `json:"policies"`
	Probes      map[string]int64 `json:"probes"`
	Faults      map[string]int64 `json:"faults"`
	Porcupine   [3]int64         `json:"porcupine"`
	Samples     []any            `json:"samples"`
	Violation   *Violation       `json:"violation,omitempty"`
	ReplayPath  string           `json:"replay_path,omitempty"`
	KnownSeen   map[string]int64 `json:"known_seen"`
	Infra       string           `json:"infra,omitempty"`
	AccHash     string           `json:"acc_hash"`
	FPFile      string           `json:"fp_file"`
	Nontrivial  int64            `json:"nontrivial"`
	ReplayOK    bool             `json:"replay_ok"`
	ReplayNotes string           `json:"replay_notes,omitempty"`
	Hashes      []string         `json:"hashes,omitempty"`
	Rule        string           `json:"rule"`
	Real        []string         `json:"real"`
	Stub        []string         `json:"stub"`
	NotRun      []string         `json:"not_run"`
	Assumptions []string         `json:"assumptions"`
}

// RunOne executes one run of a scenario from a tape.
func RunOne(tb *testing.T, sc *Scenario, tp *tape.Tape, tier string, trace bool) *Ctx {
	c := &Ctx{T: tp, TB: tb, Tier: tier, Trace: trace, Scenario: sc.Name, Config: map[string]any{}, Evals: 1}
	simrt.SetClock(nil)
	simrt.SetRandTape(nil)
	func() {
		defer func() {
			if r := recover(); r != nil {
				c.Infra = fmt.Sprintf("panic in scenario %s: %v\n%s", sc.Name, r, debug.Stack())
			}
		}()
		sc.Run(c)
	}()
	simrt.SetClock(nil)
	simrt.SetRandTape(nil)
	return c
}

// Main is called from each property's TestWorker.
func Main(t *testing.T, p *Property) {
	path := os.Getenv("VERIF_CFG")
	if path == "" {
		t.Skip("VERIF_CFG not set (run through /verif/check)")
	}
	raw, err := os.ReadFile(path)
	if err != nil {
		t.Fatalf("cfg: %v", err)
	}
	var cfg WorkerCfg
	if err := json.Unmarshal(raw, &cfg); err != nil {
		t.Fatalf("cfg: %v", err)
	}
	debug.SetGCPercent(200)
	out := &WorkerOut{Property: p.ID, Worker: cfg.Worker, Build: cfg.Build,
		Scenarios: map[string]int64{}, Policies: map[string]int64{}, KnownSeen: map[string]int64{},
		Rule: p.Rule, Real: p.Real, Stub: p.Stub, NotRun: p.NotRun, Assumptions: p.Assumptions}
	start := time.Now()
	defer func() {
		out.WallS = time.Since(start).Seconds()
		out.Probes, out.Faults = simrt.Snapshot()
		b, _ := json.MarshalIndent(out, "", " ")
		if err := os.WriteFile(cfg.Out, b, 0o644); err != nil {
			t.Fatalf("write out: %v", err)
		}
	}()
	go memoryGuard(&cfg, p.ID)
	if cfg.Replay != "" {
		replay(t, p, &cfg, out)
		return
	}
	if len(cfg.Only) > 0 {
		var keep []Scenario
		for _, s := range p.Scenarios {
			for _, o := range cfg.Only {
				if s.Name == o {
					keep = append(keep, s)
				}
			}
		}
		p.Scenarios = keep
	}
	progress := os.Getenv("VERIF_PROGRESS") != ""
	fps := map[uint64]struct{}{}
	var acc uint64 = 1469598103934665603
	deadline := start.Add(time.Duration(cfg.BudgetS * float64(time.Second)))
	first := true
	nth := func(idx int) (uint64, bool) {
		run := uint64(cfg.Worker) + uint64(idx)*uint64(cfg.Workers)
		if cfg.Runs == 0 {
			return run, true
		}
		if run >= uint64(cfg.Runs) {
			return 0, false
		}
		if cfg.Reverse {
			cnt := (cfg.Runs - cfg.Worker + cfg.Workers - 1) / cfg.Workers
			run = uint64(cfg.Worker) + uint64(cnt-1-idx)*uint64(cfg.Workers)
		}
		return run, true
	}
	for idx := 0; ; idx++ {
		run, ok := nth(idx)
		if !ok {
			break
		}
		if cfg.BudgetS > 0 && time.Now().After(deadline) {
			break
		}
		sc := p.pick(run)
		seed := runSeed(cfg.Seed, run)
		curRun.Store(int64(run))
		curScenario.Store(sc.Name)
		if progress {
			var ms runtime.MemStats
			runtime.ReadMemStats(&ms)
			fmt.Fprintf(os.Stderr, "PROGRESS run=%d scenario=%s goroutines=%d heap_inuse_mb=%d sys_mb=%d\n", run, sc.Name, runtime.NumGoroutine(), ms.HeapInuse>>20, ms.Sys>>20)
		}
		tp := tape.New(seed)
		c := RunOne(t, sc, tp, cfg.Tier, false)
		if first {
			out.FirstRun = run
			first = false
		}
		out.LastRun = run
		out.Runs++
		out.Evals += c.Evals
		out.Steps += int64(c.Steps)
		out.SimTimeS += c.SimTime.Seconds()
		out.Scenarios[sc.Name]++
		if c.Policy != "" {
			out.Policies[c.Policy]++
		}
		for i := range c.Porcupine {
			out.Porcupine[i] += int64(c.Porcupine[i])
		}
		acc = (acc ^ c.Hash) * 1099511628211
		if cfg.HashOnly {
			v := "-"
			if c.Viol != nil {
				v = c.Viol.Sig()
			}
			out.Hashes = append(out.Hashes, fmt.Sprintf("%d:%016x:%d:%s", run, c.Hash, tp.Draws(), v))
			continue
		}
		if c.Infra != "" {
			out.Infra = fmt.Sprintf("run %d seed %d scenario %s: %s", run, seed, sc.Name, c.Infra)
			break
		}
		if c.Nontrivial {
			out.Nontrivial++
			fps[c.FP] = struct{}{}
		}
		if cfg.Build == "race" {
			if rep := newRaceReports(); rep != "" {
				v, infraMsg := classifyRace(rep)
				if v == nil {
					out.Infra = fmt.Sprintf("run %d seed %d scenario %s: %s", run, seed, sc.Name, infraMsg)
					break
				}
				if c.Viol == nil {
					c.Viol = v
				}
				if k := matchKnown(cfg.Known, p.ID, c.Viol); k != nil {
					out.KnownSeen[k.What]++
					continue
				}
				// the detector reports each racing pair once per process, so a
				// race cannot be minimised in-process: the replay is the full tape
				rf := writeReplay(p, sc, &cfg, run, seed, tp.Values(), c, tp.Draws(), map[string]any{"note": "race reports are not minimised (reported once per process)"})
				out.Violation = &rf.Violation
				out.ReplayPath = rf.path
				break
			}
		}
		if c.Viol != nil {
			if k := matchKnown(cfg.Known, p.ID, c.Viol); k != nil {
				out.KnownSeen[k.What]++
				continue
			}
			// minimise, write the replay file, stop this worker
			rf := shrinkAndWrite(t, p, sc, &cfg, run, seed, tp, c)
			out.Violation = &rf.Violation
			out.ReplayPath = rf.path
			break
		}
		if len(out.Samples) < 3 && cfg.Build != "race" {
			// re-run the same seed with tracing on to show what the case looked like
			tc := RunOne(t, sc, tape.New(seed), cfg.Tier, true)
			th := head(tc.Log, 30)
			if th == nil {
				th = []string{}
			}
			out.Samples = append(out.Samples, map[string]any{
				"scenario": sc.Name, "run": run, "tape_seed": fmt.Sprint(seed), "config": c.Config, "draws": tp.Draws(),
				"steps": c.Steps, "policy": c.Policy, "evaluations": c.Evals, "trace_head": th,
				"same_hash_on_rerun": tc.Hash == c.Hash,
			})
		}
	}
	out.AccHash = fmt.Sprintf("%016x", acc)
	// fingerprints for the driver to union
	if cfg.Out != "" {
		fp := cfg.Out + ".fp"
		buf := make([]byte, 0, 8*len(fps))
		keys := make([]uint64, 0, len(fps))
		for k := range fps {
			keys = append(keys, k)
		}
		sort.Slice(keys, func(i, j int) bool { return keys[i] < keys[j] })
		for _, k := range keys {
			buf = binary.LittleEndian.AppendUint64(buf, k)
		}
		if err := os.WriteFile(fp, buf, 0o644); err == nil {
			out.FPFile = fp
		}
	}
}

func head(s []string, n int) []string {
	if len(s) > n {
		return s[:n]
	}
	return s
}

func matchKnown(known []Known, prop string, v *Violation) *Known {
	for i := range known {
		k := &known[i]
		if k.Status == "known" && k.Property == prop &&
			k.Signature.Oracle == v.Oracle && k.Signature.Op == v.Op && k.Signature.Detail == v.Detail {
			return k
		}
	}
	return nil
}

type replayWritten struct {
	ReplayFile
	path string
}

func shrinkAndWrite(t *testing.T, p *Property, sc *Scenario, cfg *WorkerCfg, run, seed uint64, tp *tape.Tape, c *Ctx) *replayWritten {
	sig := c.Viol.Sig()
	vals := tp.Values()
	orig := len(vals)
	attempts, accepted := 0, 0
	shrinkStart := time.Now()
	budget := 12 * time.Second
	if cfg.Tier == "thorough" {
		budget = 90 * time.Second
	}
	expired := func() bool { return time.Since(shrinkStart) > budget || attempts > 4000 }
	try := func(cand []uint64) bool {
		if expired() {
			return false
		}
		attempts++
		t0 := time.Now()
		rc := RunOne(t, sc, tape.Replay(cand), cfg.Tier, false)
		if os.Getenv("VERIF_PROGRESS") != "" {
			fmt.Fprintf(os.Stderr, "SHRINK attempt=%d len=%d took=%v\n", attempts, len(cand), time.Since(t0))
		}
		if d := time.Since(t0); d > budget/8 {
			// a single re-execution this expensive: stop minimising, report as is
			budget = 0
		}
		if rc.Infra == "" && rc.Viol != nil && rc.Viol.Sig() == sig {
			accepted++
			return true
		}
		return false
	}
	// make sure the recorded vector reproduces at all (it must: same process)
	if !try(vals) {
		// not reproducible in-process: report as is, the driver's fresh-process
		// replay decides whether this is infrastructure trouble
		attempts = 1 << 30
	}
	// pass 0: truncate the tail (exhausted tape reads as zeros)
	for cut := len(vals) / 2; cut >= 1 && !expired(); cut /= 2 {
		for len(vals) > cut && !expired() {
			cand := append([]uint64(nil), vals[:len(vals)-cut]...)
			if try(cand) {
				vals = cand
			} else {
				break
			}
		}
	}
	// pass 1: delete spans
	for span := len(vals) / 2; span >= 1 && !expired(); span /= 2 {
		// (every candidate costs a copy of the tape: long tapes only get the
		// coarse spans, otherwise this pass is quadratic)
		if len(vals) > 20000 && span < len(vals)/64 {
			break
		}
		for i := 0; i+span <= len(vals) && !expired(); {
			cand := append(append([]uint64(nil), vals[:i]...), vals[i+span:]...)
			if try(cand) {
				vals = cand
			} else {
				i += span
			}
		}
	}
	// pass 2: zero spans
	for span := len(vals) / 2; span >= 1 && !expired(); span /= 2 {
		if len(vals) > 20000 && span < len(vals)/64 {
			break
		}
		for i := 0; i+span <= len(vals) && !expired(); i += span {
			allZero := true
			for _, v := range vals[i : i+span] {
				if v != 0 {
					allZero = false
				}
			}
			if allZero {
				continue
			}
			cand := append([]uint64(nil), vals...)
			for j := i; j < i+span; j++ {
				cand[j] = 0
			}
			if try(cand) {
				vals = cand
			}
		}
	}
	// pass 3: lower individual values (halving)
	for i := range vals {
		if expired() || len(vals) > 20000 {
			break
		}
		for vals[i] > 0 {
			cand := append([]uint64(nil), vals...)
			cand[i] = vals[i] / 2
			if try(cand) {
				vals = cand
			} else {
				if vals[i] > 1 {
					cand2 := append([]uint64(nil), vals...)
					cand2[i] = vals[i] - 1
					if try(cand2) {
						vals = cand2
						continue
					}
				}
				break
			}
		}
	}
	// strip trailing zeros
	for len(vals) > 0 && vals[len(vals)-1] == 0 {
		vals = vals[:len(vals)-1]
	}
	// final traced run
	fc := RunOne(t, sc, tape.Replay(vals), cfg.Tier, true)
	if fc.Viol == nil || fc.Viol.Sig() != sig {
		// fall back to the original tape
		vals = tp.Values()
		fc = RunOne(t, sc, tape.Replay(vals), cfg.Tier, true)
		if fc.Viol == nil {
			fc.Viol = c.Viol
		}
	}
	return writeReplay(p, sc, cfg, run, seed, vals, fc, orig,
		map[string]any{"attempts": attempts, "accepted": accepted, "wall_s": time.Since(shrinkStart).Seconds()})
}

func writeReplay(p *Property, sc *Scenario, cfg *WorkerCfg, run, seed uint64, vals []uint64, fc *Ctx, orig int, shrinkInfo map[string]any) *replayWritten {
	rf := &replayWritten{ReplayFile: ReplayFile{
		Property: p.ID, Scenario: sc.Name, Tier: cfg.Tier, Seed: cfg.Seed, Run: run, Build: cfg.Build,
		Config: fc.Config, Tape: vals, Trace: fc.Log, Violation: *fc.Viol,
		EventHash: fmt.Sprintf("%016x", fc.Hash), WeaveDig: cfg.WeaveDig, OrigDraws: orig,
		Shrink: shrinkInfo,
	}}
	sig := fc.Viol.Sig()
	if rf.Tape == nil {
		rf.Tape = []uint64{}
	}
	if rf.Trace == nil {
		rf.Trace = []string{}
	}
	name := fmt.Sprintf("%s-%s-%d-%d-%016x.json", p.ID, cfg.Build, cfg.Seed, run, HashString(sig)^fc.Hash)
	_ = os.MkdirAll(cfg.ReplayDir, 0o755)
	rf.path = cfg.ReplayDir + "/" + name
	b, _ := json.MarshalIndent(rf.ReplayFile, "", " ")
	if err := os.WriteFile(rf.path, b, 0o644); err != nil {
		fmt.Fprintf(os.Stderr, "write replay: %v\n", err)
	}
	return rf
}

func replay(t *testing.T, p *Property, cfg *WorkerCfg, out *WorkerOut) {
	raw, err := os.ReadFile(cfg.Replay)
	if err != nil {
		out.Infra = "replay: " + err.Error()
		return
	}
	var rf ReplayFile
	if err := json.Unmarshal(raw, &rf); err != nil {
		out.Infra = "replay: " + err.Error()
		return
	}
	sc := p.byName(rf.Scenario)
	if sc == nil {
		out.Infra = "replay: unknown scenario " + rf.Scenario
		return
	}
	c := RunOne(t, sc, tape.Replay(rf.Tape), rf.Tier, true)
	out.Runs = 1
	if c.Infra != "" {
		out.Infra = c.Infra
		return
	}
	if cj, err := json.Marshal(c.Config); err == nil {
		fmt.Println("CONFIG", string(cj))
	}
	for _, l := range c.Log {
		fmt.Println("TRACE", l)
	}
	h := fmt.Sprintf("%016x", c.Hash)
	if cfg.Build == "race" && c.Viol == nil {
		if rep := newRaceReports(); rep != "" {
			fmt.Println(rep)
			c.Viol, _ = classifyRace(rep)
			if c.Viol == nil {
				out.Infra = "race report without go-mc frames"
				return
			}
		}
	}
	if c.Viol == nil {
		out.ReplayNotes = "no violation on replay"
		fmt.Println("REPLAY: no violation (the tree may have changed since the file was written)")
		return
	}
	out.Violation = c.Viol
	fmt.Printf("REPLAY: violation oracle=%s op=%s detail=%s\n%s\n", c.Viol.Oracle, c.Viol.Op, c.Viol.Detail, c.Viol.Message)
	// A race report names the pair of accesses the detector happened to still
	// remember (its shadow cells are evicted at random): the same schedule can
	// yield "ClientJoin vs Len" once and "ClientLeft vs Len" the next time. For
	// this oracle the schedule (event hash) and the oracle must match, the
	// named pair may differ.
	sameRace := c.Viol.Oracle == "data-race" && rf.Violation.Oracle == "data-race"
	if (c.Viol.Sig() == rf.Violation.Sig() || sameRace) && h == rf.EventHash {
		out.ReplayOK = true
		if c.Viol.Sig() != rf.Violation.Sig() {
			out.ReplayNotes = fmt.Sprintf("same schedule, the detector named another pair: %q (recorded %q)", c.Viol.Sig(), rf.Violation.Sig())
		}
	} else {
		out.ReplayNotes = fmt.Sprintf("signature %q vs recorded %q; hash %s vs recorded %s", c.Viol.Sig(), rf.Violation.Sig(), h, rf.EventHash)
	}
	if cfg.WeaveDig != "" && rf.WeaveDig != "" && cfg.WeaveDig != rf.WeaveDig {
		fmt.Println("REPLAY: note: woven sources differ from when the file was written")
	}
}

// ---------------------------------------------------------------- memory guard

var (
	curRun      atomic.Int64
	curScenario atomic.Value
)

// memoryGuard ends the worker with an infrastructure result (never a verdict)
// when its heap passes a limit: the sandbox has no memory limit of its own and
// code under test that has lost its place in a stream may allocate without
// bound. It runs outside every bubble and reads only the real clock.
func memoryGuard(cfg *WorkerCfg, prop string) {
	limit := uint64(10 << 30)
	if s := os.Getenv("VERIF_MEM_LIMIT_MB"); s != "" {
		if v, err := strconv.ParseUint(s, 10, 64); err == nil && v > 0 {
			limit = v << 20
		}
	}
	sample := []metrics.Sample{{Name: "/memory/classes/heap/objects:bytes"}}
	for {
		time.Sleep(200 * time.Millisecond)
		metrics.Read(sample)
		if sample[0].Value.Kind() != metrics.KindUint64 || sample[0].Value.Uint64() < limit {
			continue
		}
		sc, _ := curScenario.Load().(string)
		msg := fmt.Sprintf("memory guard: live heap %d MiB above the limit of %d MiB during run %d (scenario %s) - worker stopped",
			sample[0].Value.Uint64()>>20, limit>>20, curRun.Load(), sc)
		b, _ := json.Marshal(&WorkerOut{Property: prop, Worker: cfg.Worker, Build: cfg.Build, Infra: msg})
		_ = os.WriteFile(cfg.Out, b, 0o644)
		fmt.Fprintln(os.Stderr, msg)
		os.Exit(3)
	}
}

// ---------------------------------------------------------------- race log

var raceLogOff int64

func raceLogFile() string {
	for _, kv := range strings.Fields(os.Getenv("GORACE")) {
		if strings.HasPrefix(kv, "log_path=") {
			return fmt.Sprintf("%s.%d", strings.TrimPrefix(kv, "log_path="), os.Getpid())
		}
	}
	return ""
}

// newRaceReports returns race-detector output written since the last call.
func newRaceReports() string {
	path := raceLogFile()
	if path == "" {
		return ""
	}
	st, err := os.Stat(path)
	if err != nil || st.Size() <= raceLogOff {
		return ""
	}
	raw, err := os.ReadFile(path)
	if err != nil || int64(len(raw)) <= raceLogOff {
		return ""
	}
	s := string(raw[raceLogOff:])
	raceLogOff = int64(len(raw))
	if !strings.Contains(s, "DATA RACE") {
		return ""
	}
	return s
}

// classifyRace extracts, for the first report, the innermost go-mc function of
// each access stack. A report whose access stacks contain no go-mc frame is a
// harness/simulator problem (infrastructure), not a finding.
func classifyRace(rep string) (*Violation, string) {
	const mod = "github.com/Tnze/go-mc/"
	lines := strings.Split(rep, "\n")
	var stacks [][]string
	var cur []string
	in := false
	for _, l := range lines {
		switch {
		case strings.HasPrefix(l, "Read at") || strings.HasPrefix(l, "Write at") || strings.HasPrefix(l, "Previous read at") ||
			strings.HasPrefix(l, "Previous write at") || strings.HasPrefix(l, "Atomic") || strings.HasPrefix(l, "Previous atomic"):
			if in {
				stacks = append(stacks, cur)
			}
			cur, in = nil, true
		case strings.HasPrefix(l, "Goroutine ") || strings.HasPrefix(l, "=================="):
			if in {
				stacks = append(stacks, cur)
			}
			cur, in = nil, false
			if len(stacks) >= 2 {
				goto done
			}
		default:
			if in && strings.HasPrefix(l, "  ") && !strings.HasPrefix(l, "      ") {
				cur = append(cur, strings.TrimSpace(l))
			}
		}
	}
done:
	// The innermost frame that is neither the Go runtime/standard library nor
	// "the operating system" of the simulation (simnet/simio) decides: if it is
	// simulator or harness code for every access, the report is our own bug.
	var funcs []string
	ownOnly := true
	for _, st := range stacks {
		decided := false
		for _, f := range st {
			switch {
			case strings.HasPrefix(f, "verifsim/simnet.") || strings.HasPrefix(f, "verifsim/simio."):
				continue
			case strings.HasPrefix(f, "verifsim/"):
				decided = true
			case strings.HasPrefix(f, mod):
				ownOnly = false
				decided = true
			default:
				continue // runtime, standard library, third party
			}
			if decided {
				break
			}
		}
	}
	if ownOnly {
		return nil, "race report whose accesses are in simulator/harness code (simulator bug):\n" + rep
	}
	for _, st := range stacks {
		for _, f := range st {
			if strings.HasPrefix(f, mod) {
				name := strings.TrimPrefix(f, mod)
				for {
					i := strings.IndexByte(name, '[')
					if i < 0 {
						break
					}
					depth, j := 0, i
					for ; j < len(name); j++ {
						if name[j] == '[' {
							depth++
						} else if name[j] == ']' {
							depth--
							if depth == 0 {
								break
							}
						}
					}
					if j >= len(name) {
						break
					}
					name = name[:i] + name[j+1:]
				}
				name = strings.TrimSuffix(name, "()")
				funcs = append(funcs, name)
				break
			}
		}
	}
	if len(funcs) == 0 {
		return nil, "race report without go-mc frames (harness or simulator bug):\n" + rep
	}
	sort.Strings(funcs)
	if len(funcs) == 2 && funcs[0] == funcs[1] {
		funcs = funcs[:1]
	}
	first := rep
	if i := strings.Index(rep, "=================="); i >= 0 {
		if j := strings.Index(rep[i+18:], "=================="); j >= 0 {
			first = rep[i : i+18+j+18]
		}
	}
	return &Violation{Oracle: "data-race", Op: "race-detector", Detail: strings.Join(funcs, " vs "),
		Message: "race detector report under the serialised schedule (scheduler hand-offs are invisible to the detector):\n" + first}, ""
}
