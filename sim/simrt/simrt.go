// Package simrt is the runtime surface that woven go-mc code and harnesses
// call: task creation, yields, the clock, tape-derived randomness and the
// probe/fault counters. With no active world every function passes through to
// the real runtime, so woven code behaves like the original outside a run.
package simrt

import (
	"time"

	"verifsim/kernel"
	"verifsim/tape"
)

// Go replaces a `go` statement in woven files.
//
//go:norace
func Go(site string, f func()) {
	w := kernel.Current()
	if w == nil || w.Dead() {
		go f()
		return
	}
	// tasks started by the code under test may legitimately never finish
	// (e.g. a writer goroutine waiting for a queue that is never closed)
	w.GoDaemon(site, f)
}

// Yield is a park point.
//
//go:norace
func Yield(site string) {
	if w := kernel.Current(); w != nil {
		w.Yield(site)
	}
}

// Preempt is a statement-level preemption point woven into selected files.
// Whether it yields is decided by the world's preemption density (a private
// stream seeded from the tape), so most calls cost a counter increment.
//
//go:norace
func Preempt(site string) {
	if w := kernel.Current(); w != nil {
		w.MaybePreempt(site)
	}
}

// ---- clock (sequential simulations: C14/C15) ----

// Clock is the explicit simulated clock used by sequential simulations that
// do not run inside a bubble. When nil, Now() is time.Now() (which inside a
// bubble is the bubble's fake clock).
type Clock struct {
	T        time.Time
	Tape     *tape.Tape
	JumpNum  int // probability JumpNum/JumpDen that a read first jumps the clock
	JumpDen  int
	Reads    int
	Jumps    int
	MaxJumpS int
}

var clock *Clock

func SetClock(c *Clock) { clock = c }

// Now replaces time.Now in woven files.
func Now() time.Time {
	c := clock
	if c == nil {
		return time.Now()
	}
	c.Reads++
	if c.JumpDen > 0 && c.Tape.Bool(c.JumpNum, c.JumpDen) {
		c.Jumps++
		c.T = c.T.Add(time.Duration(1+c.Tape.Choose(c.MaxJumpS)) * time.Second)
	}
	return c.T
}

// ---- randomness ----

var randTape *tape.Tape

func SetRandTape(t *tape.Tape) { randTape = t }

// Int31 replaces math/rand.Int31 in woven files.
func Int31() int32 {
	if randTape == nil {
		return 4
	}
	// bias towards interesting ids
	switch randTape.Choose(6) {
	case 0:
		return 0
	case 1:
		return 1
	case 2:
		return 0x7fffffff
	}
	return int32(randTape.U64() & 0x7fffffff)
}

// ---- probes and fault counters (ints only, lock-free, race-blind) ----

const maxCounters = 256

var (
	counterNames [maxCounters]string
	counterKind  [maxCounters]byte // 'p' probe, 'f' fault
	nCounters    int
	counts       [maxCounters]int64
)

type Counter int

// NewProbe registers a "rare branch reached" counter. Call at package init.
func NewProbe(name string) Counter { return newCounter(name, 'p') }

// NewFault registers a "fault actually fired" counter.
func NewFault(name string) Counter { return newCounter(name, 'f') }

func newCounter(name string, kind byte) Counter {
	for i := 0; i < nCounters; i++ {
		if counterNames[i] == name && counterKind[i] == kind {
			return Counter(i)
		}
	}
	if nCounters >= maxCounters {
		panic("simrt: too many counters")
	}
	counterNames[nCounters] = name
	counterKind[nCounters] = kind
	nCounters++
	return Counter(nCounters - 1)
}

//go:norace
func (c Counter) Hit() { counts[c]++ }

//go:norace
func (c Counter) Add(n int) { counts[c] += int64(n) }

//go:norace
func (c Counter) Get() int64 { return counts[c] }

// Snapshot returns probe and fault counts by name.
func Snapshot() (probes, faults map[string]int64) {
	probes, faults = map[string]int64{}, map[string]int64{}
	for i := 0; i < nCounters; i++ {
		if counterKind[i] == 'p' {
			probes[counterNames[i]] = counts[i]
		} else {
			faults[counterNames[i]] = counts[i]
		}
	}
	return
}

func ResetCounters() {
	for i := range counts {
		counts[i] = 0
	}
}
