//go:build verif

// Package regionsim drives save/region through seeded operation histories on
// the simulated disk and checks every step against a map model and the
// independent Anvil parser. It is shared by the C14 (fault-free) and C15
// (crash/tear/error injection) harnesses.
package regionsim

import (
	"bytes"
	"fmt"
	"io"
	"os"
	"path/filepath"
	"reflect"
	"sort"
	"time"
	"unsafe"

	"github.com/Tnze/go-mc/save/region"

	"verifsim/harness"
	"verifsim/oracle/anvil"
	"verifsim/simdisk"
	"verifsim/simrt"
	"verifsim/tape"
)

var (
	PInPlace    = simrt.NewProbe("region.overwrite.same.sector.count (in place)")
	PGrow       = simrt.NewProbe("region.overwrite.grows")
	PShrink     = simrt.NewProbe("region.overwrite.shrinks")
	PHoleReuse  = simrt.NewProbe("region.write.lands.in.a.hole.before.the.end")
	POverLimit  = simrt.NewProbe("region.write.over.limit.refused")
	PAtLimit    = simrt.NewProbe("region.write.at.limit.accepted(255 sectors)")
	PReopen     = simrt.NewProbe("region.clean.reopen")
	PClockJump  = simrt.NewProbe("region.clock.jump.inside.write")
	PWriterAt   = simrt.NewProbe("disk.with.io.WriterAt")
	PNoWriterAt = simrt.NewProbe("disk.without.io.WriterAt")
	PFreshLoad  = simrt.NewProbe("region.fresh.load.compared")
	PBoundary   = simrt.NewProbe("region.size.at.sector.boundary+-1")
	PPad        = simrt.NewProbe("region.pad.to.full.sector")
	PPadAligned = simrt.NewProbe("region.pad.leaves.size.multiple.of.4096")
	PStartImage = simrt.NewProbe("region.history.starts.from.earlier.image")
	PRealFile   = simrt.NewProbe("region.on.real.os.File(Create/Open/Close)")
)

type Key struct{ X, Z int }

// Sim is one region under test with its model.
type Sim struct {
	C        *harness.Ctx
	T        *tape.Tape
	Disk     *simdisk.File
	RW       io.ReadWriteSeeker // Disk or FileAt{Disk}
	R        *region.Region
	Model    map[Key][]byte
	Unknown  map[Key]bool // C15: chunk whose write was interrupted
	Seq      int
	Hot      []Key
	Clock    *simrt.Clock
	WriterAt bool
	Ops      int
	// OnWrite, if set, is called after every successful WriteSector with the
	// image before the operation, the journal of its physical writes and the
	// model before the operation.
	OnWrite func(s *Sim, k Key, before []byte, journal []simdisk.Write, pre map[Key][]byte) bool
	// state fingerprint
	StateFP uint64
	// Real: the region lives in a real file (region.Create/Open/Close) in a
	// scratch directory instead of the simulated disk; the image oracles read
	// the file back after every operation.
	Real bool
	dir  string
	path string
}

// Content returns unique, self-describing chunk data.
func Content(k Key, seq, size int) []byte {
	b := make([]byte, size)
	s := uint32(seq)*2654435761 + uint32(k.X)*97 + uint32(k.Z)*193
	for i := range b {
		s = s*1664525 + 1013904223
		b[i] = byte(s >> 24)
	}
	hdr := []byte{byte(k.X), byte(k.Z), byte(seq), byte(seq >> 8), 0xC4}
	copy(b, hdr)
	return b
}

// Size draws a chunk size around the interesting boundaries.
func Size(tp *tape.Tape, big bool) int {
	switch tp.Pick(2, 4, 5, 4, 1, 1) {
	case 0:
		return 1 + tp.Choose(3)
	case 1:
		PBoundary.Hit()
		return 4091 + tp.Choose(3) // 4091..4093: 1 vs 2 sectors
	case 2:
		PBoundary.Hit()
		k := 1 + tp.Choose(5)
		return k*4096 - 4 - 1 + tp.Choose(3)
	case 3:
		return 1 + tp.Choose(20000)
	case 4:
		if big {
			return 255*4096 - 4 - tp.Choose(2)
		}
		return 1 + tp.Choose(60000)
	default:
		return 1 + tp.Choose(9000)
	}
}

func New(c *harness.Ctx, startImage []byte) *Sim {
	tp := c.T
	s := &Sim{C: c, T: tp, Model: map[Key][]byte{}, Unknown: map[Key]bool{}}
	s.Clock = &simrt.Clock{T: time.Unix(1_700_000_000+int64(tp.Choose(1000)), int64(tp.Choose(1_000_000_000))), Tape: tp, MaxJumpS: 3}
	if tp.Bool(1, 2) {
		s.Clock.JumpNum, s.Clock.JumpDen = 1, 2+tp.Choose(6)
	}
	simrt.SetClock(s.Clock)
	s.Disk = simdisk.New(append([]byte(nil), startImage...))
	// legal short reads from the backing file (an io.Reader may return fewer
	// bytes than asked for): page-bounded or tape-chosen
	switch tp.Pick(3, 1, 1) {
	case 1:
		s.Disk.ReadMode = 1
	case 2:
		// private stream seeded by one draw: reads happen inside oracle loops and
		// must not consume the main tape
		x := tp.U64() | 1
		s.Disk.ReadMode, s.Disk.Choose = 2, func(n int) int {
			x ^= x << 13
			x ^= x >> 7
			x ^= x << 17
			return int(x % uint64(n))
		}
	}
	s.WriterAt = tp.Bool(1, 2)
	if s.WriterAt {
		PWriterAt.Hit()
		s.RW = simdisk.FileAt{File: s.Disk}
	} else {
		PNoWriterAt.Hit()
		s.RW = s.Disk
	}
	nHot := 2 + tp.Choose(5)
	for i := 0; i < nHot; i++ {
		s.Hot = append(s.Hot, Key{tp.Choose(32), tp.Choose(32)})
	}
	return s
}

func (s *Sim) Coord() Key {
	if s.T.Bool(3, 4) {
		return s.Hot[s.T.Choose(len(s.Hot))]
	}
	return Key{s.T.Choose(32), s.T.Choose(32)}
}

// UseRealFile switches the sim to a real file before Open.
func (s *Sim) UseRealFile() bool {
	dir, err := os.MkdirTemp(".", "region-")
	if err != nil {
		s.C.Infra = "scratch dir: " + err.Error()
		return false
	}
	PRealFile.Hit()
	s.Real, s.dir, s.path = true, dir, filepath.Join(dir, "r.0.0.mca")
	s.WriterAt = true
	if len(s.Disk.Img) > 0 {
		if err := os.WriteFile(s.path, s.Disk.Img, 0o644); err != nil {
			s.C.Infra = "scratch file: " + err.Error()
			return false
		}
	}
	return true
}

// Cleanup closes and removes the real file, if any.
func (s *Sim) Cleanup() {
	if s.Real {
		if s.R != nil {
			s.R.Close()
		}
		os.RemoveAll(s.dir)
	}
}

// sync re-reads the real file into the image the oracles look at.
func (s *Sim) sync() bool {
	if !s.Real {
		return true
	}
	b, err := os.ReadFile(s.path)
	if err != nil {
		s.C.Infra = "reading back the region file: " + err.Error()
		return false
	}
	s.Disk.Img = b
	return true
}

// Open creates (empty disk) or loads the region.
func (s *Sim) Open() bool {
	var err error
	if s.Real {
		if _, serr := os.Stat(s.path); serr != nil {
			s.R, err = region.Create(s.path)
		} else {
			s.R, err = region.Open(s.path)
		}
		if err != nil {
			s.C.Fail("region.open", "open", "error", "opening the region file failed: %v", err)
			return false
		}
		return s.sync()
	}
	if len(s.Disk.Img) == 0 {
		s.R, err = region.CreateWriter(s.RW)
	} else {
		s.Disk.Pos = 0
		s.R, err = region.Load(s.RW)
	}
	if err != nil {
		s.C.Fail("region.open", "open", "error", "opening the region failed: %v", err)
		return false
	}
	return true
}

func sectorsFor(n int) int { return (n + 4 + 4095) / 4096 }

// CheckImage verifies the disk image with the independent parser against the
// model (oracle 2 of C14).
func (s *Sim) CheckImage(after string) bool {
	img := anvil.Bytes(s.Disk.Img)
	size := int64(len(s.Disk.Img))
	entries, err := anvil.Header(img, size)
	if err != nil {
		s.C.Fail("region.format", "image", "header", "after %s: %v", after, err)
		return false
	}
	if len(s.Unknown) > 0 {
		var es []anvil.Entry
		for _, e := range entries {
			if !s.Unknown[Key{e.X, e.Z}] {
				es = append(es, e)
			}
		}
		entries = es
	}
	if err := anvil.CheckLayout(entries, false, 0, 0); err != nil {
		s.C.Fail("region.format", "image", "layout", "after %s the file is not a valid Anvil region: %v", after, err)
		return false
	}
	seen := map[Key]bool{}
	for _, e := range entries {
		k := Key{e.X, e.Z}
		seen[k] = true
		if s.Unknown[k] {
			continue
		}
		want, ok := s.Model[k]
		if !ok {
			s.C.Fail("region.format", "image", "phantom-entry", "after %s: header has an entry for chunk (%d,%d) which was never written", after, e.X, e.Z)
			return false
		}
		data, err := anvil.Chunk(img, size, e)
		if err != nil {
			s.C.Fail("region.format", "image", "chunk", "after %s: %v", after, err)
			return false
		}
		if !bytes.Equal(data, want) {
			s.C.Fail("region.format", "image", "chunk-data", "after %s: chunk (%d,%d) on disk (sectors %d+%d, %d bytes) differs from the %d bytes last written", after, e.X, e.Z, e.Sector, e.Count, len(data), len(want))
			return false
		}
	}
	for _, k := range SortedKeys(s.Model) {
		if !seen[k] && !s.Unknown[k] {
			s.C.Fail("region.format", "image", "missing-entry", "after %s: chunk (%d,%d) was written but has no header entry", after, k.X, k.Z)
			return false
		}
	}
	return true
}

// CheckFresh compares a fresh Load of the image with the live region
// (oracle 3 of C14).
func (s *Sim) CheckFresh(after string) bool {
	PFreshLoad.Hit()
	cp := simdisk.New(append([]byte(nil), s.Disk.Img...))
	cp.ReadMode, cp.Choose = s.Disk.ReadMode, s.Disk.Choose
	fr, err := region.Load(cp)
	if err != nil {
		s.C.Fail("region.reload", "fresh-load", "load-error", "after %s: a fresh Load of the file fails: %v", after, err)
		return false
	}
	if lo, ok1 := OffsetsOf(s.R); !ok1 {
		POffsetsHidden.Hit() // the implementation keeps its location table differently: compared by behaviour only
	} else if fo, ok2 := OffsetsOf(fr); ok2 && fo != lo {
		for z := 0; z < 32; z++ {
			for x := 0; x < 32; x++ {
				if lo[z][x] != fo[z][x] {
					s.C.Fail("region.reload", "fresh-load", "offsets", "after %s: offset of chunk (%d,%d) is %#x in memory but %#x after a fresh Load", after, x, z, lo[z][x], fo[z][x])
					return false
				}
			}
		}
	}
	if fr.Timestamps != s.R.Timestamps {
		for a := 0; a < 32; a++ {
			for b := 0; b < 32; b++ {
				if fr.Timestamps[a][b] != s.R.Timestamps[a][b] {
					detail := "value"
					if fr.Timestamps[a][b] == s.R.Timestamps[b][a] && a != b {
						detail = "transposed"
					}
					s.C.Fail("region.reload", "fresh-load", "timestamps-"+detail, "after %s: Timestamps[%d][%d] is %d in memory but %d after a fresh Load of the same file (in-memory [%d][%d] = %d)",
						after, a, b, s.R.Timestamps[a][b], fr.Timestamps[a][b], b, a, s.R.Timestamps[b][a])
					return false
				}
			}
		}
	}
	for _, k := range SortedKeys(s.Model) {
		want := s.Model[k]
		if s.Unknown[k] {
			continue
		}
		got, err := fr.ReadSector(k.X, k.Z)
		if err != nil || !bytes.Equal(got, want) {
			s.C.Fail("region.reload", "fresh-load", "chunk", "after %s: chunk (%d,%d) read through a fresh Load gives err=%v, %d bytes (last written %d bytes)", after, k.X, k.Z, err, len(got), len(want))
			return false
		}
	}
	return true
}

// SortedKeys returns the keys in a fixed order: Go's map iteration order is
// random, and anything that reads from the disk (short reads are drawn from a
// PRNG) or reports the first mismatch must not depend on it.
func SortedKeys(m map[Key][]byte) []Key {
	ks := make([]Key, 0, len(m))
	for k := range m {
		ks = append(ks, k)
	}
	sort.Slice(ks, func(i, j int) bool {
		if ks[i].Z != ks[j].Z {
			return ks[i].Z < ks[j].Z
		}
		return ks[i].X < ks[j].X
	})
	return ks
}

// OffsetsOf reads the region's in-memory location table by reflection. It is
// an optional observation: when the implementation keeps that table under
// another name or shape, ok is false and callers fall back to behaviour.
func OffsetsOf(r *region.Region) (o [32][32]int32, ok bool) {
	v := reflect.ValueOf(r).Elem().FieldByName("offsets")
	if !v.IsValid() || v.Type() != reflect.TypeOf(o) || !v.CanAddr() {
		return o, false
	}
	return *(*[32][32]int32)(unsafe.Pointer(v.UnsafeAddr())), true
}

// headerOffsets decodes the location table from the file image (the
// independent view; used for probes and the state fingerprint).
func (s *Sim) headerOffsets() (o [32][32]int32) {
	img := s.Disk.Img
	if len(img) < 4096 {
		return
	}
	for z := 0; z < 32; z++ {
		for x := 0; x < 32; x++ {
			i := 4 * (z*32 + x)
			o[z][x] = int32(uint32(img[i])<<24 | uint32(img[i+1])<<16 | uint32(img[i+2])<<8 | uint32(img[i+3]))
		}
	}
	return
}

var POffsetsHidden = simrt.NewProbe("region.in-memory.offsets.not.observable(compared.by.behaviour)")

func cloneModel(m map[Key][]byte) map[Key][]byte {
	c := make(map[Key][]byte, len(m))
	for k, v := range m {
		c[k] = v
	}
	return c
}

// Write performs one WriteSector with all fault-free oracles.
func (s *Sim) Write(k Key, size int) bool {
	s.Seq++
	data := Content(k, s.Seq, size)
	need := sectorsFor(size)
	overLimit := need > 255
	offs := s.headerOffsets()
	oldSec, oldCnt := int(offs[k.Z][k.X]>>8), int(offs[k.Z][k.X]&0xff)
	if oldSec != 0 && !overLimit {
		switch {
		case need == oldCnt:
			PInPlace.Hit()
		case need > oldCnt:
			PGrow.Hit()
		default:
			PShrink.Hit()
		}
	}
	before := s.Disk.Img
	var pre map[Key][]byte
	if s.OnWrite != nil || overLimit || s.Real {
		before = append([]byte(nil), s.Disk.Img...)
		pre = cloneModel(s.Model)
	}
	s.Disk.ResetJournal()
	s.Disk.Record = true
	jumps := s.Clock.Jumps
	err := s.R.WriteSector(k.X, k.Z, data)
	s.Disk.Record = false
	if !s.sync() {
		return false
	}
	if s.Clock.Jumps > jumps {
		PClockJump.Hit()
	}
	op := fmt.Sprintf("WriteSector(%d,%d,%d bytes)", k.X, k.Z, size)
	s.C.Logf("%s seq=%d -> %v", op, s.Seq, err)
	if overLimit {
		POverLimit.Hit()
		if err == nil {
			s.C.Fail("region.limit", "write", "accepted-over-limit", "%s needs %d sectors (> 255) but was accepted", op, need)
			return false
		}
		if !bytes.Equal(before, s.Disk.Img) {
			s.C.Fail("region.limit", "write", "refused-but-changed-file", "%s was refused (%v) but the file changed", op, err)
			return false
		}
		return s.CheckImage(op) // model unchanged
	}
	if need == 255 {
		PAtLimit.Hit()
	}
	if err != nil {
		s.C.Fail("region.write", "write", "error", "%s failed on a healthy disk: %v", op, err)
		return false
	}
	s.Model[k] = data
	delete(s.Unknown, k)
	// hole reuse probe: new run starts before the previous end of file
	no := s.headerOffsets()
	if int(no[k.Z][k.X]>>8) != oldSec && (int(no[k.Z][k.X]>>8)+need)*4096 < len(before) {
		PHoleReuse.Hit()
	}
	if !s.CheckImage(op) {
		return false
	}
	if s.OnWrite != nil {
		if !s.OnWrite(s, k, before, append([]simdisk.Write(nil), s.Disk.Journal...), pre) {
			return false
		}
	}
	return true
}

func (s *Sim) Read(k Key) bool {
	got, err := s.R.ReadSector(k.X, k.Z)
	op := fmt.Sprintf("ReadSector(%d,%d)", k.X, k.Z)
	s.C.Logf("%s -> %d bytes, %v", op, len(got), err)
	if s.Unknown[k] {
		return true
	}
	want, ok := s.Model[k]
	if !ok {
		if err == nil {
			s.C.Fail("region.read", "read", "absent-chunk-readable", "%s of a chunk that was never written returned %d bytes and no error", op, len(got))
			return false
		}
		return true
	}
	if err != nil {
		s.C.Fail("region.read", "read", "error", "%s failed although %d bytes were written: %v", op, len(want), err)
		return false
	}
	if !bytes.Equal(got, want) {
		s.C.Fail("region.read", "read", "wrong-data", "%s returned %d bytes that differ from the %d bytes last written", op, len(got), len(want))
		return false
	}
	return true
}

func (s *Sim) Exist(k Key) bool {
	got := s.R.ExistSector(k.X, k.Z)
	if s.Unknown[k] {
		return true
	}
	_, want := s.Model[k]
	if got != want {
		s.C.Fail("region.exist", "exist", fmt.Sprint(want), "ExistSector(%d,%d) = %v but the chunk was written: %v", k.X, k.Z, got, want)
		return false
	}
	return true
}

func (s *Sim) Pad() bool {
	PPad.Hit()
	if err := s.R.PadToFullSector(); err != nil {
		s.C.Fail("region.pad", "pad", "error", "PadToFullSector failed: %v", err)
		return false
	}
	if !s.sync() {
		return false
	}
	// (the resulting size is PadToFullSector's own contract, not part of the
	// property: only validity of the file and the chunks is asserted)
	if len(s.Disk.Img)%4096 == 0 {
		PPadAligned.Hit()
	}
	return s.CheckImage("PadToFullSector")
}

func (s *Sim) Reopen() bool {
	PReopen.Hit()
	if !s.CheckFresh("history so far") {
		return false
	}
	var r *region.Region
	var err error
	if s.Real {
		if cerr := s.R.Close(); cerr != nil {
			s.C.Fail("region.reload", "reopen", "close-error", "closing the region file failed: %v", cerr)
			return false
		}
		r, err = region.Open(s.path)
	} else {
		s.Disk.Pos = 0
		r, err = region.Load(s.RW)
	}
	if err != nil {
		s.C.Fail("region.reload", "reopen", "load-error", "re-opening the region failed: %v", err)
		return false
	}
	s.R = r
	s.C.Logf("re-open (Load)")
	return true
}

// Step performs one tape-chosen operation; returns false to stop the run.
func (s *Sim) Step(allowBig bool) bool {
	s.Ops++
	tp := s.T
	switch tp.Pick(10, 4, 2, 1, 2, 1, 1) {
	case 0:
		k := s.Coord()
		size := Size(tp, allowBig)
		// bias overwrites towards grow/shrink/keep on existing chunks
		if old, ok := s.Model[k]; ok && tp.Bool(1, 2) {
			oc := sectorsFor(len(old))
			switch tp.Choose(3) {
			case 0:
				size = oc*4096 - 4 - tp.Choose(100) // same count
			case 1:
				size = (oc+1+tp.Choose(2))*4096 - 4 - tp.Choose(4096)
			default:
				if oc > 1 {
					size = (oc-1)*4096 - 4 - tp.Choose(2000)
				}
			}
			if size < 1 {
				size = 1
			}
		}
		return s.Write(k, size)
	case 1:
		return s.Read(s.Coord())
	case 2:
		return s.Exist(s.Coord())
	case 3:
		return s.Pad()
	case 4:
		return s.Reopen()
	case 5:
		// over-limit write
		return s.Write(s.Coord(), 255*4096-3+tp.Choose(5000))
	default:
		if tp.Bool(1, 4) {
			// the wall clock is stepped back (NTP correction, wrong time at boot)
			PClockBack.Hit()
			s.Clock.T = s.Clock.T.Add(-time.Duration(1+tp.Choose(100000)) * time.Second)
		} else {
			s.Clock.T = s.Clock.T.Add(time.Duration(tp.Choose(5000)) * time.Millisecond)
		}
		return true
	}
}

// Fingerprint hashes the allocation state (sorted runs and holes).
func (s *Sim) Fingerprint() uint64 {
	offs := s.headerOffsets()
	h := uint64(1469598103934665603)
	for z := 0; z < 32; z++ {
		for x := 0; x < 32; x++ {
			if offs[z][x] != 0 {
				h ^= uint64(uint32(offs[z][x])) + uint64(z*32+x)<<32
				h *= 1099511628211
			}
		}
	}
	return h
}

var PClockBack = simrt.NewProbe("region.clock.stepped.backwards.between.operations")
