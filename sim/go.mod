module verifsim

go 1.26.8

require (
	github.com/Tnze/go-mc v0.0.0
	github.com/anishathalye/porcupine v1.3.0
)

require github.com/google/uuid v1.3.0

replace github.com/Tnze/go-mc => /repo
