//go:build !race

package kernel

import "unsafe"

const RaceEnabled = false

func raceDisable()                      {}
func raceEnable()                       {}
func RaceAcquire(p unsafe.Pointer)      {}
func RaceRelease(p unsafe.Pointer)      {}
func RaceReleaseMerge(p unsafe.Pointer) {}
