// Package kernel is the deterministic scheduler: exactly one simulated task
// runs at a time, and which one runs next is a decision drawn from the tape.
//
// A World lives inside one testing/synctest bubble. The bubble's root
// goroutine is the scheduler. Every task is a real goroutine that only runs
// between being released by the scheduler and its next park point. Parked
// tasks block on a private channel, which synctest classifies as durably
// blocked, so synctest.Wait() tells the scheduler when the released task has
// parked again (or finished, or blocked in a runtime primitive).
//
// Rules for code in this package (needed by the race build, see DESIGN §5 C20):
// no Go maps, no fmt, no math/rand on state shared between tasks; state is
// touched only in named //go:norace functions; hand-offs happen inside
// RaceDisable/RaceEnable so the race detector does not see the scheduler's
// own synchronisation as happens-before edges between tasks.
package kernel

import (
	"runtime"
	"sync"
	"testing/synctest"
	"time"

	"verifsim/tape"
)

type State int32

const (
	Running  State = iota // released by the scheduler (or blocked in a runtime primitive)
	Runnable              // parked, may be chosen
	Blocked               // parked in a kernel wait (mutex, cond, conn, ...)
	Done
)

type Task struct {
	ID      int
	Name    string
	Daemon  bool
	state   State
	site    string
	waitOn  string
	resume  chan struct{}
	gid     uint64
	prio    int
	Panic   any
	PanicAt string
	w       *World
}

//go:norace
func (t *Task) State() State { return t.state }

// CountWaiting counts tasks whose name starts with prefix and that are
// blocked (in the kernel or in a runtime primitive).
//
//go:norace
func (w *World) CountWaiting(prefix string) int {
	n := 0
	w.lock()
	for _, t := range w.tasks {
		if len(t.Name) >= len(prefix) && t.Name[:len(prefix)] == prefix && (t.state == Blocked || (t.state == Running && t != w.last)) {
			n++
		}
	}
	w.unlock()
	return n
}

type event struct {
	at  time.Duration // since world start
	seq uint64
	fn  func()
}

type Outcome int

const (
	OutDone     Outcome = iota // all non-daemon tasks finished / stop requested
	OutDeadlock                // unfinished tasks, none can ever run
	OutBudget                  // step budget exhausted
)

type TraceEntry struct {
	Step int
	Task string
	Site string
}

type World struct {
	T        *tape.Tape
	MaxSteps int
	TraceOn  bool

	mu     sync.Mutex
	tasks  []*Task
	events []event
	evseq  uint64
	start  time.Time
	dead   bool
	stop   bool
	seq    uint64 // global event sequence number (history stamps)

	Steps      int
	Switches   int
	Hash       uint64
	SchedHash  uint64 // hash of (task, site) sequence only
	Trace      []TraceEntry
	DeadlockAt []string // task@object for deadlock reports
	Leaked     int

	// Epoch is unique per world in this process; run-scoped simsync objects
	// (package-level pools, caches) reset themselves when it changes.
	Epoch uint64
	// Drain: after the last non-daemon task finished keep scheduling daemon
	// tasks until the world is quiescent (nothing runnable, no events).
	Drain bool
	// Final is a snapshot of unfinished tasks taken just before teardown.
	Final []string

	idleWaiters []*Task
	IdleWakes   int

	// statement-level preemption (woven simrt.Preempt calls): average number of
	// preemption points between two yields; 0 = never yield there
	PreemptAvg  int
	MaxPreempt  int // after this many statement-level preemptions the rest of the run is not preempted
	preemptNext int
	preemptCnt  int
	preemptRng  uint64
	Preemptions int

	policy    int
	last      *Task
	preemptK  int
	starve    int
	changePts []int
	idleQ     time.Duration
	idleTotal time.Duration
	Policy    string
}

var cur *World

// Current returns the active world or nil (pass-through mode).
//
//go:norace
func Current() *World { return cur }

const (
	PolUniform = iota
	PolPCT
	PolRunToBlock
	PolStarve
	numPolicies
)

var policyNames = [...]string{"uniform", "pct", "run-to-block", "starve"}

// NewWorld must be called from the root goroutine of a synctest bubble.
func NewWorld(t *tape.Tape) *World {
	w := &World{T: t, MaxSteps: 200000, start: time.Now(), Hash: 1469598103934665603}
	w.policy = t.Pick(4, 2, 3, 1)
	w.Policy = policyNames[w.policy]
	switch w.policy {
	case PolPCT:
		d := 1 + t.Choose(3)
		for i := 0; i < d; i++ {
			w.changePts = append(w.changePts, 1+t.Choose(400))
		}
	case PolRunToBlock:
		w.preemptK = 2 + t.Choose(30)
	case PolStarve:
		w.starve = t.Choose(6)
	}
	w.PreemptAvg = []int{0, 0, 0, 200, 40, 8, 2}[t.Choose(7)]
	w.preemptRng = t.U64() | 1
	w.preemptNext = 1
	w.MaxPreempt = 3000
	epochCounter++
	w.Epoch = epochCounter
	cur = w
	return w
}

var epochCounter uint64

// Since returns simulated time since the world started.
func (w *World) Since() time.Duration { return time.Since(w.start) }

//go:norace
func (w *World) lock() {
	raceDisable()
	w.mu.Lock()
}

//go:norace
func (w *World) unlock() {
	w.mu.Unlock()
	raceEnable()
}

//go:norace
func fnv(h uint64, s string) uint64 {
	for i := 0; i < len(s); i++ {
		h ^= uint64(s[i])
		h *= 1099511628211
	}
	return h
}

//go:norace
func mix(h, v uint64) uint64 {
	h ^= v
	h *= 1099511628211
	return h
}

// Record folds an observation into the run's event hash. Ints only.
//
//go:norace
func (w *World) Record(kind string, a, b int64) {
	if w == nil {
		return
	}
	w.lock()
	w.Hash = mix(mix(fnv(w.Hash, kind), uint64(a)), uint64(b))
	w.unlock()
}

// Note records a fault or other noteworthy event in the trace (replay runs
// only). Never draws from the tape.
//
//go:norace
func (w *World) Note(kind, what string) {
	if w == nil || !w.TraceOn {
		return
	}
	w.lock()
	w.Trace = append(w.Trace, TraceEntry{w.Steps, kind, what})
	w.unlock()
}

// Seq returns the next global event sequence number (for history stamps).
//
//go:norace
func (w *World) Seq() int64 {
	w.lock()
	w.seq++
	s := w.seq
	w.unlock()
	return int64(s)
}

//go:norace
func goid() uint64 {
	var buf [40]byte
	n := runtime.Stack(buf[:], false)
	// "goroutine 123 ["
	var id uint64
	for i := 10; i < n; i++ {
		c := buf[i]
		if c < '0' || c > '9' {
			break
		}
		id = id*10 + uint64(c-'0')
	}
	return id
}

// Me returns the calling goroutine's task, or nil if the caller is not a task.
//
//go:norace
func (w *World) Me() *Task {
	g := goid()
	w.lock()
	var r *Task
	for _, t := range w.tasks {
		if t.gid == g {
			r = t
			break
		}
	}
	w.unlock()
	return r
}

// Go registers and starts a task. Tasks are numbered in program order of the
// Go calls, which is what makes the schedule a pure function of the tape.
//
//go:norace
func (w *World) Go(name string, f func()) *Task {
	return w.spawn(name, false, f)
}

// GoDaemon starts a task that need not finish for the run to be complete.
//
//go:norace
func (w *World) GoDaemon(name string, f func()) *Task {
	return w.spawn(name, true, f)
}

//go:norace
func (w *World) spawn(name string, daemon bool, f func()) *Task {
	t := &Task{Name: name, Daemon: daemon, resume: make(chan struct{}), state: Runnable, site: "start", w: w}
	w.lock()
	t.ID = len(w.tasks)
	if w.policy == PolPCT {
		t.prio = 1000 + w.T.Choose(1000)
	}
	w.tasks = append(w.tasks, t)
	w.unlock()
	ready := make(chan struct{})
	go taskMain(w, t, f, ready)
	// wait until the goroutine has recorded its id, so that a park point
	// reached immediately after release is attributed correctly
	raceDisable()
	<-ready
	raceEnable()
	return t
}

//go:norace
func taskMain(w *World, t *Task, f func(), ready chan struct{}) {
	t.gid = goid()
	raceDisable()
	close(ready)
	<-t.resume
	raceEnable()
	defer taskExit(w, t)
	if w.dead {
		return
	}
	f()
}

type killed struct{}

//go:norace
func taskExit(w *World, t *Task) {
	if r := recover(); r != nil {
		if _, ok := r.(killed); !ok {
			t.Panic = r
			var buf [4096]byte
			n := runtime.Stack(buf[:], false)
			t.PanicAt = string(buf[:n])
		}
	}
	w.lock()
	t.state = Done
	w.unlock()
}

// park blocks the calling task until the scheduler releases it again.
//
//go:norace
func (w *World) park(t *Task, st State, site, waitOn string) {
	w.lock()
	t.state = st
	t.site = site
	t.waitOn = waitOn
	w.unlock()
	raceDisable()
	<-t.resume
	raceEnable()
	if w.dead {
		runtime.Goexit()
	}
}

// Yield is a park point: the caller stays runnable and the scheduler decides
// who continues. Calls from goroutines that are not tasks are no-ops.
//
//go:norace
func (w *World) Yield(site string) {
	if w == nil || w.dead {
		return
	}
	t := w.Me()
	if t == nil {
		return
	}
	w.park(t, Runnable, site, "")
}

// MaybePreempt is called at woven statement-level preemption points.
//
//go:norace
func (w *World) MaybePreempt(site string) {
	if w.PreemptAvg <= 0 || w.dead {
		return
	}
	w.preemptCnt++
	if w.preemptCnt < w.preemptNext {
		return
	}
	w.preemptCnt = 0
	x := w.preemptRng
	x ^= x << 13
	x ^= x >> 7
	x ^= x << 17
	w.preemptRng = x
	w.preemptNext = 1 + int(x%uint64(2*w.PreemptAvg))
	t := w.Me()
	if t == nil {
		return
	}
	w.Preemptions++
	if w.Preemptions >= w.MaxPreempt {
		w.PreemptAvg = 0
	}
	w.park(t, Runnable, site, "")
}

// YieldT is Yield for a caller that already knows its task.
//
//go:norace
func (w *World) YieldT(t *Task, site string) {
	if w.dead {
		return
	}
	w.park(t, Runnable, site, "")
}

// Block parks the caller in a kernel wait. It returns after some other task
// (or an event) called Wake on it and the scheduler then chose it.
//
//go:norace
func (w *World) Block(t *Task, site, waitOn string) {
	if w.dead {
		runtime.Goexit()
	}
	w.park(t, Blocked, site, waitOn)
}

// WaitIdle parks the caller until the world is quiescent: nothing is runnable
// and no event is pending. Used for quiescence assertions ("nothing happens
// until X arrives").
//
//go:norace
func (w *World) WaitIdle(site string) {
	if w.dead {
		runtime.Goexit()
	}
	t := w.Me()
	if t == nil {
		panic("kernel: WaitIdle outside a task")
	}
	w.lock()
	w.idleWaiters = append(w.idleWaiters, t)
	w.unlock()
	w.park(t, Blocked, site, "idle")
}

// Sleep parks the caller for d of simulated time.
//
//go:norace
func (w *World) Sleep(d time.Duration) {
	if w.dead {
		runtime.Goexit()
	}
	t := w.Me()
	if t == nil {
		time.Sleep(d)
		return
	}
	w.After(d, func() { w.Wake(t) })
	w.park(t, Blocked, "sleep", "timer")
}

// Wake makes a blocked task runnable (it runs when the scheduler picks it).
//
//go:norace
func (w *World) Wake(t *Task) {
	w.lock()
	if t.state == Blocked {
		t.state = Runnable
	}
	w.unlock()
}

// Dead reports whether the world has been torn down.
//
//go:norace
func (w *World) Dead() bool { return w == nil || w.dead }

// After schedules fn to run in scheduler context at now+d (fake time).
//
//go:norace
func (w *World) After(d time.Duration, fn func()) {
	at := time.Since(w.start) + d
	w.lock()
	w.evseq++
	w.events = append(w.events, event{at, w.evseq, fn})
	// sift up
	i := len(w.events) - 1
	for i > 0 {
		p := (i - 1) / 2
		if !evLess(w.events[i], w.events[p]) {
			break
		}
		w.events[i], w.events[p] = w.events[p], w.events[i]
		i = p
	}
	w.unlock()
}

//go:norace
func evLess(a, b event) bool {
	if a.at != b.at {
		return a.at < b.at
	}
	return a.seq < b.seq
}

//go:norace
func (w *World) popEvent() event {
	ev := w.events[0]
	n := len(w.events) - 1
	w.events[0] = w.events[n]
	w.events[n] = event{}
	w.events = w.events[:n]
	i := 0
	for {
		l, r, m := 2*i+1, 2*i+2, i
		if l < n && evLess(w.events[l], w.events[m]) {
			m = l
		}
		if r < n && evLess(w.events[r], w.events[m]) {
			m = r
		}
		if m == i {
			break
		}
		w.events[i], w.events[m] = w.events[m], w.events[i]
		i = m
	}
	return ev
}

// RequestStop ends the run at the next scheduling point.
//
//go:norace
func (w *World) RequestStop() {
	w.lock()
	w.stop = true
	w.unlock()
}

//go:norace
func (w *World) choose(runnable []*Task) *Task {
	n := len(runnable)
	if n == 1 {
		return runnable[0]
	}
	switch w.policy {
	case PolPCT:
		for _, cp := range w.changePts {
			if cp == w.Steps && w.last != nil {
				w.last.prio = -w.Steps // lowest so far
			}
		}
		best := runnable[0]
		for _, t := range runnable[1:] {
			if t.prio > best.prio {
				best = t
			}
		}
		return best
	case PolRunToBlock:
		if w.last != nil && w.last.state == Runnable {
			if !w.T.Bool(1, w.preemptK) {
				return w.last
			}
		}
		return runnable[w.T.Choose(n)]
	case PolStarve:
		var others [64]*Task
		m := 0
		for _, t := range runnable {
			if t.ID != w.starve && m < len(others) {
				others[m] = t
				m++
			}
		}
		if m == 0 {
			return runnable[0]
		}
		return others[w.T.Choose(m)]
	}
	return runnable[w.T.Choose(n)]
}

// Run is the scheduler loop; call it from the bubble's root goroutine after
// the initial tasks have been started.
//
//go:norace
func (w *World) Run() Outcome {
	var runnable []*Task
	out := OutDone
	for {
		synctest.Wait()
		w.lock()
		runnable = runnable[:0]
		unfinished, external := 0, 0
		for _, t := range w.tasks {
			switch t.state {
			case Runnable:
				runnable = append(runnable, t)
			case Running:
				external++
			}
			if t.state != Done && !t.Daemon {
				unfinished++
			}
		}
		if w.stop || (unfinished == 0 && !(w.Drain && (len(runnable) > 0 || len(w.events) > 0))) {
			w.unlock()
			break
		}
		if w.Steps-w.Preemptions >= w.MaxSteps {
			w.unlock()
			out = OutBudget
			break
		}
		now := time.Since(w.start)
		if len(w.events) > 0 && w.events[0].at <= now {
			ev := w.popEvent()
			w.unlock()
			ev.fn()
			continue
		}
		if len(runnable) == 0 {
			var d time.Duration = -1
			if len(w.events) > 0 {
				d = w.events[0].at - now
			}
			if d < 0 && len(w.idleWaiters) > 0 {
				// quiescent: release the tasks waiting for exactly that
				for i, t := range w.idleWaiters {
					if t.state == Blocked {
						t.state = Runnable
					}
					w.idleWaiters[i] = nil
				}
				w.idleWaiters = w.idleWaiters[:0]
				w.IdleWakes++
				w.unlock()
				continue
			}
			if external > 0 {
				// some task is blocked in a runtime primitive (timer, channel):
				// let the bubble clock advance in growing quanta
				if w.idleQ == 0 {
					w.idleQ = time.Millisecond
				}
				if d < 0 || w.idleQ < d {
					d = w.idleQ
					w.idleTotal += d
					w.idleQ *= 2
				}
				if w.idleTotal > 4*time.Hour {
					d = -1
				}
			}
			if d < 0 {
				for _, t := range w.tasks {
					if t.state != Done && !t.Daemon {
						s := t.Name + "@" + t.waitOn
						if t.state == Running {
							s = t.Name + "@runtime-blocked"
						}
						w.DeadlockAt = append(w.DeadlockAt, s)
					}
				}
				w.unlock()
				out = OutDeadlock
				break
			}
			w.unlock()
			time.Sleep(d)
			continue
		}
		w.idleQ, w.idleTotal = 0, 0
		t := w.choose(runnable)
		if t != w.last {
			w.Switches++
		}
		w.last = t
		w.Steps++
		h := fnv(mix(w.SchedHash, uint64(t.ID)), t.site)
		w.SchedHash = h
		w.Hash = mix(w.Hash, h)
		if w.TraceOn {
			w.Trace = append(w.Trace, TraceEntry{w.Steps, t.Name, t.site})
		}
		t.state = Running
		w.unlock()
		raceDisable()
		t.resume <- struct{}{}
		raceEnable()
	}
	w.lock()
	for _, t := range w.tasks {
		if t.state != Done {
			s := t.Name + "@" + t.waitOn
			if t.state == Running {
				s = t.Name + "@runtime-blocked"
			} else if t.state == Runnable {
				s = t.Name + "@runnable:" + t.site
			}
			w.Final = append(w.Final, s)
		}
	}
	w.unlock()
	w.teardown()
	return out
}

// teardown lets every parked task leave (runtime.Goexit at its park point).
//
//go:norace
func (w *World) teardown() {
	w.lock()
	w.dead = true
	w.unlock()
	for round := 0; round < 4; round++ {
		for i := 0; ; i++ {
			w.lock()
			if i >= len(w.tasks) {
				w.unlock()
				break
			}
			t := w.tasks[i]
			st := t.state
			w.unlock()
			if st == Runnable || st == Blocked {
				w.lock()
				t.state = Running
				w.unlock()
				raceDisable()
				t.resume <- struct{}{}
				raceEnable()
				synctest.Wait()
			}
		}
		synctest.Wait()
	}
	w.lock()
	for _, t := range w.tasks {
		if t.state != Done {
			w.Leaked++
		}
	}
	w.unlock()
	cur = nil
}

// Tasks returns the task list (for reports; call after Run).
func (w *World) Tasks() []*Task { return w.tasks }
