//go:build race

package kernel

import (
	"runtime"
	"unsafe"
)

const RaceEnabled = true

//go:norace
func raceDisable() { runtime.RaceDisable() }

//go:norace
func raceEnable() { runtime.RaceEnable() }

// RaceAcquire/RaceRelease re-create the happens-before edges of the real
// primitives that simsync replaces.
//
//go:norace
func RaceAcquire(p unsafe.Pointer) { runtime.RaceAcquire(p) }

//go:norace
func RaceRelease(p unsafe.Pointer) { runtime.RaceRelease(p) }

//go:norace
func RaceReleaseMerge(p unsafe.Pointer) { runtime.RaceReleaseMerge(p) }
