// weave creates the simulator's seams at build time. It reads files from the
// current working tree of the repository, writes rewritten copies into an
// output directory and emits an overlay.json for `go build -overlay`.
// The repository is never written.
//
// Rewrites (purely syntactic, so a modified tree is re-woven without the
// weaver knowing what changed):
//
//	sync:   import "sync"            -> sync "verifsim/simsync"
//	go:     go f(a...)               -> simrt.Go(site, func(){ f(a...) }) with f and a evaluated first
//	chan:   statements containing a channel receive/send/select/close get simrt.Yield before and after
//	sel:    pkg.Name                 -> otherpkg.Name for listed selectors
//	add:    extra in-package files (build tag verif)
//
// Exit status 2 on any rule that cannot be applied.
package main

import (
	"bytes"
	"crypto/sha256"
	"encoding/hex"
	"encoding/json"
	"flag"
	"fmt"
	"go/ast"
	"go/parser"
	"go/printer"
	"go/token"
	"os"
	"path/filepath"
	"sort"
	"strconv"
	"strings"
)

type SelRule struct {
	From   string `json:"from"`   // "time.Now"
	To     string `json:"to"`     // "simrt.Now"
	Import string `json:"import"` // "verifsim/simrt"
}

type FileRule struct {
	Path string `json:"path"`
	Sync bool   `json:"sync"`
	Go   bool   `json:"go"`
	Chan bool   `json:"chan"`
	// Preempt inserts simrt.Preempt(site) before every simple statement and at
	// the head of every loop body: statement-level preemption points, so that
	// interleavings between plain memory accesses are explored too.
	Preempt bool      `json:"preempt"`
	Sel     []SelRule `json:"sel"`
}

type AddRule struct {
	Path    string `json:"path"`    // destination inside the repo
	Content string `json:"content"` // file in the rules directory
	// The added file refers to an unexported function of the package. If that
	// function does not exist any more (or has another arity) the file is not
	// added and MissingTag is handed to the build instead, so that the harness
	// compiles without the scenario that needs it.
	NeedsFile    string `json:"needs_file"`
	NeedsFunc    string `json:"needs_func"`
	NeedsParams  int    `json:"needs_params"`
	NeedsResults int    `json:"needs_results"`
	MissingTag   string `json:"missing_tag"`
}

func hasFunc(path, name string, nparams, nresults int) bool {
	f, err := parser.ParseFile(token.NewFileSet(), path, nil, 0)
	if err != nil {
		return false
	}
	for _, d := range f.Decls {
		fd, ok := d.(*ast.FuncDecl)
		if !ok || fd.Recv != nil || fd.Name.Name != name {
			continue
		}
		count := func(fl *ast.FieldList) int {
			n := 0
			if fl == nil {
				return 0
			}
			for _, f := range fl.List {
				if len(f.Names) == 0 {
					n++
				} else {
					n += len(f.Names)
				}
			}
			return n
		}
		return count(fd.Type.Params) == nparams && count(fd.Type.Results) == nresults
	}
	return false
}

type PropRules struct {
	Files []FileRule `json:"files"`
	Add   []AddRule  `json:"add"`
}

func fail(format string, a ...any) {
	fmt.Fprintf(os.Stderr, "weave: "+format+"\n", a...)
	os.Exit(2)
}

func main() {
	repo := flag.String("repo", "/repo", "repository root")
	out := flag.String("out", "", "output directory")
	rulesPath := flag.String("rules", "", "rules json")
	prop := flag.String("prop", "", "property id (key in rules)")
	flag.Parse()
	if *out == "" || *rulesPath == "" || *prop == "" {
		fail("usage: weave -repo R -out D -rules F -prop ID")
	}
	raw, err := os.ReadFile(*rulesPath)
	if err != nil {
		fail("%v", err)
	}
	var all map[string]PropRules
	if err := json.Unmarshal(raw, &all); err != nil {
		fail("rules: %v", err)
	}
	rules, ok := all[*prop]
	if !ok {
		fail("no rules for %s", *prop)
	}
	if err := os.MkdirAll(*out, 0o755); err != nil {
		fail("%v", err)
	}
	overlay := map[string]string{}
	digest := sha256.New()
	for i, fr := range rules.Files {
		src := filepath.Join(*repo, fr.Path)
		b, err := weaveFile(src, fr)
		if err != nil {
			fail("%s: %v", fr.Path, err)
		}
		dst := filepath.Join(*out, fmt.Sprintf("w%02d_%s", i, filepath.Base(fr.Path)))
		if err := os.WriteFile(dst, b, 0o644); err != nil {
			fail("%v", err)
		}
		overlay[src] = dst
		digest.Write(b)
	}
	var tags []string
	for i, ar := range rules.Add {
		if ar.NeedsFunc != "" && !hasFunc(filepath.Join(*repo, ar.NeedsFile), ar.NeedsFunc, ar.NeedsParams, ar.NeedsResults) {
			fmt.Fprintf(os.Stderr, "weave: note: %s no longer has func %s with %d params/%d results; building with tag %s\n", ar.NeedsFile, ar.NeedsFunc, ar.NeedsParams, ar.NeedsResults, ar.MissingTag)
			tags = append(tags, ar.MissingTag)
			continue
		}
		b, err := os.ReadFile(filepath.Join(filepath.Dir(*rulesPath), ar.Content))
		if err != nil {
			fail("%v", err)
		}
		dst := filepath.Join(*out, fmt.Sprintf("a%02d_%s", i, filepath.Base(ar.Path)))
		if err := os.WriteFile(dst, b, 0o644); err != nil {
			fail("%v", err)
		}
		overlay[filepath.Join(*repo, ar.Path)] = dst
		digest.Write(b)
	}
	ov, _ := json.MarshalIndent(map[string]any{"Replace": overlay}, "", " ")
	if err := os.WriteFile(filepath.Join(*out, "overlay.json"), ov, 0o644); err != nil {
		fail("%v", err)
	}
	_ = os.WriteFile(filepath.Join(*out, "weave_digest"), []byte(hex.EncodeToString(digest.Sum(nil))), 0o644)
	_ = os.WriteFile(filepath.Join(*out, "tags"), []byte(strings.Join(tags, ",")), 0o644)
}

type weaver struct {
	fset    *token.FileSet
	file    *ast.File
	base    string
	tmp     int
	needRT  bool
	goCount int
	chCount int
}

func weaveFile(path string, fr FileRule) ([]byte, error) {
	fset := token.NewFileSet()
	f, err := parser.ParseFile(fset, path, nil, parser.ParseComments)
	if err != nil {
		return nil, err
	}
	w := &weaver{fset: fset, file: f, base: filepath.Base(path)}
	// drop comments that are not directives: positions shift after rewriting and
	// go/printer would misplace them; keep the package doc and //go: directives
	var kept []*ast.CommentGroup
	for _, cg := range f.Comments {
		keep := false
		for _, c := range cg.List {
			if strings.HasPrefix(c.Text, "//go:") {
				keep = true
			}
		}
		if keep {
			kept = append(kept, cg)
		}
	}
	f.Comments = kept

	if fr.Sync {
		found := false
		for _, im := range f.Imports {
			if im.Path.Value == `"sync"` {
				if im.Name != nil && im.Name.Name != "sync" {
					return nil, fmt.Errorf("sync imported under name %s", im.Name.Name)
				}
				im.Path.Value = `"verifsim/simsync"`
				im.Name = ast.NewIdent("sync")
				found = true
			}
		}
		if !found {
			// a modified tree may have dropped the import; that is not an error
			fmt.Fprintf(os.Stderr, "weave: note: %s does not import sync\n", fr.Path)
		}
	}
	if fr.Go || fr.Chan || fr.Preempt {
		for _, d := range f.Decls {
			fd, ok := d.(*ast.FuncDecl)
			if !ok || fd.Body == nil {
				continue
			}
			w.block(fd.Body, fr)
		}
		// function literals at package level (var x = func(){...})
		for _, d := range f.Decls {
			gd, ok := d.(*ast.GenDecl)
			if !ok {
				continue
			}
			ast.Inspect(gd, func(n ast.Node) bool {
				if fl, ok := n.(*ast.FuncLit); ok {
					w.block(fl.Body, fr)
					return false
				}
				return true
			})
		}
	}
	for _, sr := range fr.Sel {
		fp := strings.SplitN(sr.From, ".", 2)
		tp := strings.SplitN(sr.To, ".", 2)
		n := 0
		ast.Inspect(f, func(node ast.Node) bool {
			se, ok := node.(*ast.SelectorExpr)
			if !ok {
				return true
			}
			if id, ok := se.X.(*ast.Ident); ok && id.Name == fp[0] && se.Sel.Name == fp[1] && id.Obj == nil {
				id.Name = tp[0]
				se.Sel.Name = tp[1]
				n++
			}
			return true
		})
		if n > 0 {
			w.addImport(sr.Import, tp[0])
		} else {
			fmt.Fprintf(os.Stderr, "weave: note: %s has no use of %s\n", fr.Path, sr.From)
		}
	}
	if w.needRT {
		w.addImport("verifsim/simrt", "simrt")
	}
	w.pruneImports()
	var buf bytes.Buffer
	if err := printer.Fprint(&buf, fset, f); err != nil {
		return nil, err
	}
	// re-parse as a sanity check
	if _, err := parser.ParseFile(token.NewFileSet(), path, buf.Bytes(), 0); err != nil {
		return nil, fmt.Errorf("woven file does not parse: %v", err)
	}
	return buf.Bytes(), nil
}

func (w *weaver) addImport(path, name string) {
	q := strconv.Quote(path)
	for _, im := range w.file.Imports {
		if im.Path.Value == q {
			return
		}
	}
	spec := &ast.ImportSpec{Path: &ast.BasicLit{Kind: token.STRING, Value: q}}
	if filepath.Base(path) != name {
		spec.Name = ast.NewIdent(name)
	}
	w.file.Imports = append(w.file.Imports, spec)
	for _, d := range w.file.Decls {
		if gd, ok := d.(*ast.GenDecl); ok && gd.Tok == token.IMPORT {
			gd.Specs = append(gd.Specs, spec)
			if !gd.Lparen.IsValid() {
				gd.Lparen = gd.Pos()
				gd.Rparen = gd.End()
			}
			return
		}
	}
	gd := &ast.GenDecl{Tok: token.IMPORT, Specs: []ast.Spec{spec}}
	w.file.Decls = append([]ast.Decl{gd}, w.file.Decls...)
}

// pruneImports removes imports whose package name is no longer referenced.
func (w *weaver) pruneImports() {
	used := map[string]bool{}
	ast.Inspect(w.file, func(n ast.Node) bool {
		if se, ok := n.(*ast.SelectorExpr); ok {
			if id, ok := se.X.(*ast.Ident); ok {
				used[id.Name] = true
			}
		}
		return true
	})
	nameOf := func(im *ast.ImportSpec) string {
		if im.Name != nil {
			return im.Name.Name
		}
		p, _ := strconv.Unquote(im.Path.Value)
		b := filepath.Base(p)
		return b
	}
	for _, d := range w.file.Decls {
		gd, ok := d.(*ast.GenDecl)
		if !ok || gd.Tok != token.IMPORT {
			continue
		}
		var specs []ast.Spec
		for _, s := range gd.Specs {
			im := s.(*ast.ImportSpec)
			n := nameOf(im)
			if n == "_" || n == "." || used[n] {
				specs = append(specs, s)
			}
		}
		gd.Specs = specs
	}
	var ims []*ast.ImportSpec
	for _, im := range w.file.Imports {
		n := nameOf(im)
		if n == "_" || n == "." || used[n] {
			ims = append(ims, im)
		}
	}
	w.file.Imports = ims
	// drop empty import decls
	var decls []ast.Decl
	for _, d := range w.file.Decls {
		if gd, ok := d.(*ast.GenDecl); ok && gd.Tok == token.IMPORT && len(gd.Specs) == 0 {
			continue
		}
		decls = append(decls, d)
	}
	w.file.Decls = decls
}

func (w *weaver) site(n ast.Node) string {
	p := w.fset.Position(n.Pos())
	return fmt.Sprintf("%s:%d", w.base, p.Line)
}

func (w *weaver) yieldStmt(site string) ast.Stmt {
	w.needRT = true
	return &ast.ExprStmt{X: &ast.CallExpr{
		Fun:  &ast.SelectorExpr{X: ast.NewIdent("simrt"), Sel: ast.NewIdent("Yield")},
		Args: []ast.Expr{&ast.BasicLit{Kind: token.STRING, Value: strconv.Quote(site)}},
	}}
}

// hasChanOp reports whether n contains a channel operation outside nested
// function literals and nested blocks.
func hasChanOp(n ast.Node) bool {
	found := false
	ast.Inspect(n, func(x ast.Node) bool {
		if found {
			return false
		}
		switch v := x.(type) {
		case *ast.FuncLit:
			return false
		case *ast.BlockStmt:
			if x != n {
				return false
			}
		case *ast.UnaryExpr:
			if v.Op == token.ARROW {
				found = true
			}
		case *ast.SendStmt:
			found = true
		case *ast.CallExpr:
			if id, ok := v.Fun.(*ast.Ident); ok && id.Name == "close" && len(v.Args) == 1 {
				found = true
			}
		}
		return true
	})
	return found
}

func (w *weaver) block(b *ast.BlockStmt, fr FileRule) {
	if b == nil {
		return
	}
	b.List = w.stmts(b.List, fr)
}

func (w *weaver) stmts(list []ast.Stmt, fr FileRule) []ast.Stmt {
	var out []ast.Stmt
	for _, s := range list {
		if fr.Preempt && preemptable(s) {
			out = append(out, w.preemptStmt(w.site(s)))
		}
		out = append(out, w.stmt(s, fr)...)
	}
	return out
}

// preemptable: statements in front of which a preemption point is inserted.
func preemptable(s ast.Stmt) bool {
	switch s.(type) {
	case *ast.ExprStmt, *ast.AssignStmt, *ast.IncDecStmt, *ast.SendStmt, *ast.IfStmt, *ast.ForStmt,
		*ast.RangeStmt, *ast.SwitchStmt, *ast.TypeSwitchStmt, *ast.SelectStmt, *ast.GoStmt, *ast.ReturnStmt:
		return true
	}
	return false
}

func (w *weaver) preemptStmt(site string) ast.Stmt {
	w.needRT = true
	return &ast.ExprStmt{X: &ast.CallExpr{
		Fun:  &ast.SelectorExpr{X: ast.NewIdent("simrt"), Sel: ast.NewIdent("Preempt")},
		Args: []ast.Expr{&ast.BasicLit{Kind: token.STRING, Value: strconv.Quote(site)}},
	}}
}

// stmt rewrites one statement, returning its replacement(s).
func (w *weaver) stmt(s ast.Stmt, fr FileRule) []ast.Stmt {
	// recurse into nested bodies and function literals first
	w.nested(s, fr)
	switch v := s.(type) {
	case *ast.GoStmt:
		if fr.Go {
			return w.goStmt(v)
		}
	case *ast.SelectStmt:
		if fr.Chan {
			w.chCount++
			site := w.site(v)
			for _, c := range v.Body.List {
				cc := c.(*ast.CommClause)
				cc.Body = append([]ast.Stmt{w.yieldStmt(site + ":after")}, cc.Body...)
			}
			return []ast.Stmt{w.yieldStmt(site), v}
		}
	case *ast.ReturnStmt:
		if fr.Chan && hasChanOp(v) {
			w.chCount++
			return []ast.Stmt{w.yieldStmt(w.site(v)), v}
		}
	case *ast.ExprStmt, *ast.AssignStmt, *ast.SendStmt, *ast.DeclStmt, *ast.IncDecStmt, *ast.DeferStmt:
		if fr.Chan && hasChanOp(v) {
			w.chCount++
			site := w.site(v)
			return []ast.Stmt{w.yieldStmt(site), v, w.yieldStmt(site + ":after")}
		}
	case *ast.IfStmt, *ast.ForStmt, *ast.SwitchStmt, *ast.RangeStmt, *ast.TypeSwitchStmt:
		// channel op in the header (if v, ok := <-c; ok {...})
		if fr.Chan && headerHasChanOp(v) {
			w.chCount++
			return []ast.Stmt{w.yieldStmt(w.site(v)), v}
		}
	case *ast.LabeledStmt:
		r := w.stmt(v.Stmt, fr)
		if len(r) == 1 {
			v.Stmt = r[0]
			return []ast.Stmt{v}
		}
		v.Stmt = &ast.BlockStmt{List: r}
		return []ast.Stmt{v}
	}
	return []ast.Stmt{s}
}

func headerHasChanOp(s ast.Stmt) bool {
	chk := func(n ast.Node) bool { return n != nil && hasChanOp(n) }
	switch v := s.(type) {
	case *ast.IfStmt:
		return (v.Init != nil && chk(v.Init)) || chk(v.Cond)
	case *ast.ForStmt:
		return (v.Init != nil && chk(v.Init)) || (v.Cond != nil && chk(v.Cond)) || (v.Post != nil && chk(v.Post))
	case *ast.SwitchStmt:
		return (v.Init != nil && chk(v.Init)) || (v.Tag != nil && chk(v.Tag))
	case *ast.RangeStmt:
		return chk(v.X)
	}
	return false
}

// nested descends into the bodies contained in s.
func (w *weaver) nested(s ast.Stmt, fr FileRule) {
	switch v := s.(type) {
	case *ast.BlockStmt:
		w.block(v, fr)
		return
	case *ast.IfStmt:
		w.block(v.Body, fr)
		if v.Else != nil {
			switch e := v.Else.(type) {
			case *ast.BlockStmt:
				w.block(e, fr)
			case *ast.IfStmt:
				r := w.stmt(e, fr)
				if len(r) == 1 {
					v.Else = r[0]
				} else {
					v.Else = &ast.BlockStmt{List: r}
				}
			}
		}
	case *ast.ForStmt:
		w.block(v.Body, fr)
	case *ast.RangeStmt:
		w.block(v.Body, fr)
	case *ast.SwitchStmt:
		for _, c := range v.Body.List {
			cc := c.(*ast.CaseClause)
			cc.Body = w.stmts(cc.Body, fr)
		}
	case *ast.TypeSwitchStmt:
		for _, c := range v.Body.List {
			cc := c.(*ast.CaseClause)
			cc.Body = w.stmts(cc.Body, fr)
		}
	case *ast.SelectStmt:
		for _, c := range v.Body.List {
			cc := c.(*ast.CommClause)
			cc.Body = w.stmts(cc.Body, fr)
		}
	case *ast.LabeledStmt:
		// handled by stmt()
		return
	}
	// function literals anywhere inside the statement's expressions
	ast.Inspect(s, func(n ast.Node) bool {
		switch x := n.(type) {
		case *ast.BlockStmt:
			return x == s // nested blocks were handled above
		case *ast.FuncLit:
			w.block(x.Body, fr)
			return false
		}
		return true
	})
}

func (w *weaver) goStmt(g *ast.GoStmt) []ast.Stmt {
	w.goCount++
	w.needRT = true
	site := w.site(g)
	call := g.Call
	mk := func(fn ast.Expr) ast.Stmt {
		return &ast.ExprStmt{X: &ast.CallExpr{
			Fun:  &ast.SelectorExpr{X: ast.NewIdent("simrt"), Sel: ast.NewIdent("Go")},
			Args: []ast.Expr{&ast.BasicLit{Kind: token.STRING, Value: strconv.Quote(site)}, fn},
		}}
	}
	if fl, ok := call.Fun.(*ast.FuncLit); ok && len(call.Args) == 0 && fl.Type.Params.NumFields() == 0 && fl.Type.Results.NumFields() == 0 {
		return []ast.Stmt{mk(fl)}
	}
	// evaluate the function value and the arguments at the go statement
	var pre []ast.Stmt
	tmp := func(e ast.Expr) ast.Expr {
		w.tmp++
		id := ast.NewIdent(fmt.Sprintf("verifTmp%d", w.tmp))
		pre = append(pre, &ast.AssignStmt{Lhs: []ast.Expr{id}, Tok: token.DEFINE, Rhs: []ast.Expr{e}})
		return ast.NewIdent(id.Name)
	}
	fn := tmp(call.Fun)
	var args []ast.Expr
	for _, a := range call.Args {
		args = append(args, tmp(a))
	}
	inner := &ast.CallExpr{Fun: fn, Args: args, Ellipsis: call.Ellipsis}
	lit := &ast.FuncLit{
		Type: &ast.FuncType{Params: &ast.FieldList{}},
		Body: &ast.BlockStmt{List: []ast.Stmt{&ast.ExprStmt{X: inner}}},
	}
	pre = append(pre, mk(lit))
	return []ast.Stmt{&ast.BlockStmt{List: pre}}
}

var _ = sort.Strings
