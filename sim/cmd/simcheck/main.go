// simcheck is the driver behind /verif/check: it weaves the seams from the
// current working tree of /repo, builds the property's harness with the
// overlay, fans seeded runs out over worker processes, aggregates the results,
// confirms a violation by replaying it in a fresh process, writes the evidence
// file and sets the exit status (0 held, 1 violation, 2 infrastructure).
package main

import (
	"bufio"
	"bytes"
	"encoding/binary"
	"encoding/json"
	"fmt"
	"os"
	"os/exec"
	"path/filepath"
	"sort"
	"strconv"
	"strings"
	"sync"
	"syscall"
	"time"
)

const goBin = "go1.26.8"

// repoDir is the tree under test: /repo's working tree, or (VERIF_REPO) a
// snapshot of it, so that a long background sweep is not disturbed by edits
// made to /repo meanwhile.
var repoDir = "/repo"

// modfileArgs redirects the harness module's `replace` to repoDir when that is
// not /repo (the committed go.mod says /repo).
var modfileArgs []string

// verifDir is where this checkout of the machinery lives (normally /verif; a
// snapshot under /root/.vp/runs/<n>/verif when started through `vp run`).
var (
	verifDir = "/verif"
	simDir   = "/verif/sim"
)

func init() {
	if d := os.Getenv("VERIF_DIR"); d != "" {
		verifDir = d
		simDir = filepath.Join(d, "sim")
	}
	if r := os.Getenv("VERIF_REPO"); r != "" {
		repoDir = r
	}
}

func prepareModfile() {
	if repoDir == "/repo" {
		return
	}
	raw, err := os.ReadFile(filepath.Join(simDir, "go.mod"))
	if err != nil {
		infra("%v", err)
	}
	mod := strings.Replace(string(raw), "=> /repo", "=> "+repoDir, 1)
	mf := filepath.Join(buildDir, "go.mod")
	if err := os.WriteFile(mf, []byte(mod), 0o644); err != nil {
		infra("%v", err)
	}
	if sum, err := os.ReadFile(filepath.Join(simDir, "go.sum")); err == nil {
		_ = os.WriteFile(filepath.Join(buildDir, "go.sum"), sum, 0o644)
	}
	modfileArgs = []string{"-modfile=" + mf}
}

type tierCfg struct {
	QuickRuns     int     // total runs in the quick tier
	QuickBudgetS  float64 // wall-clock cap per worker in the quick tier
	ThoroughS     float64 // default wall-clock budget per worker, thorough
	Race          bool    // also build and run with the race detector
	RaceQuickRuns int
	Level         string
}

var props = map[string]tierCfg{
	"C07": {QuickRuns: 12000, QuickBudgetS: 60, ThoroughS: 600, Race: true, RaceQuickRuns: 3000, Level: "exploration"},
	"C09": {QuickRuns: 48000, QuickBudgetS: 60, ThoroughS: 600, Level: "exploration"},
	"C10": {QuickRuns: 25000, QuickBudgetS: 60, ThoroughS: 600, Race: true, RaceQuickRuns: 5000, Level: "exploration"},
	"C14": {QuickRuns: 16000, QuickBudgetS: 60, ThoroughS: 600, Level: "exploration"},
	"C15": {QuickRuns: 1600, QuickBudgetS: 60, ThoroughS: 600, Level: "fault_enumeration"},
	"C16": {QuickRuns: 32000, QuickBudgetS: 60, ThoroughS: 600, Level: "exploration"},
	"C19": {QuickRuns: 8000, QuickBudgetS: 60, ThoroughS: 600, Race: true, RaceQuickRuns: 1600, Level: "exploration"},
	"C20": {QuickRuns: 26000, QuickBudgetS: 60, ThoroughS: 600, Race: true, RaceQuickRuns: 8000, Level: "exploration"},
}

type violation struct {
	Oracle  string `json:"oracle"`
	Op      string `json:"op"`
	Detail  string `json:"detail"`
	Message string `json:"message"`
}

type known struct {
	Status    string    `json:"status"`
	Property  string    `json:"property"`
	Signature violation `json:"signature"`
	What      string    `json:"what"`
	Commit    string    `json:"commit,omitempty"`
}

type workerCfg struct {
	Property  string   `json:"property"`
	Tier      string   `json:"tier"`
	Seed      uint64   `json:"seed"`
	Worker    int      `json:"worker"`
	Workers   int      `json:"workers"`
	Runs      int      `json:"runs"`
	BudgetS   float64  `json:"budget_s"`
	Out       string   `json:"out"`
	Replay    string   `json:"replay"`
	ReplayDir string   `json:"replay_dir"`
	Known     []known  `json:"known"`
	Build     string   `json:"build"`
	Only      []string `json:"only"`
	WeaveDig  string   `json:"weave_digest"`
	HashOnly  bool     `json:"hash_only"`
	Reverse   bool     `json:"reverse"`
}

type workerOut struct {
	Property    string           `json:"property"`
	Worker      int              `json:"worker"`
	Build       string           `json:"build"`
	Runs        int64            `json:"runs"`
	Evals       int64            `json:"evals"`
	Steps       int64            `json:"steps"`
	SimTimeS    float64          `json:"sim_time_s"`
	WallS       float64          `json:"wall_s"`
	FirstRun    uint64           `json:"first_run"`
	LastRun     uint64           `json:"last_run"`
	Scenarios   map[string]int64 `json:"scenarios"`
	Policies    map[string]int64 `json:"policies"`
	Probes      map[string]int64 `json:"probes"`
	Faults      map[string]int64 `json:"faults"`
	Porcupine   [3]int64         `json:"porcupine"`
	Samples     []any            `json:"samples"`
	Violation   *violation       `json:"violation,omitempty"`
	ReplayPath  string           `json:"replay_path,omitempty"`
	KnownSeen   map[string]int64 `json:"known_seen"`
	Infra       string           `json:"infra,omitempty"`
	AccHash     string           `json:"acc_hash"`
	FPFile      string           `json:"fp_file"`
	Nontrivial  int64            `json:"nontrivial"`
	ReplayOK    bool             `json:"replay_ok"`
	ReplayNotes string           `json:"replay_notes,omitempty"`
	Hashes      []string         `json:"hashes,omitempty"`
	Rule        string           `json:"rule"`
	Real        []string         `json:"real"`
	Stub        []string         `json:"stub"`
	NotRun      []string         `json:"not_run"`
	Assumptions []string         `json:"assumptions"`
}

func infra(format string, a ...any) {
	fmt.Fprintf(os.Stderr, "INFRASTRUCTURE-ERROR: "+format+"\n", a...)
	cleanup()
	os.Exit(2)
}

var buildDir string

func cleanup() {
	if buildDir != "" && os.Getenv("VERIF_KEEP_BUILD") == "" {
		_ = os.RemoveAll(buildDir)
	}
}

func goEnv() []string {
	env := os.Environ()
	env = append(env, "GOFLAGS=-mod=mod", "GOPROXY=off", "GOSUMDB=off", "GOTOOLCHAIN=local", "CGO_ENABLED=1")
	return env
}

func run(dir string, env []string, name string, args ...string) (string, error) {
	cmd := exec.Command(name, args...)
	cmd.Dir = dir
	cmd.Env = env
	var buf bytes.Buffer
	cmd.Stdout = &buf
	cmd.Stderr = &buf
	err := cmd.Run()
	return buf.String(), err
}

func envInt(name string, def int64) int64 {
	if s := os.Getenv(name); s != "" {
		if v, err := strconv.ParseInt(s, 10, 64); err == nil {
			return v
		}
	}
	return def
}

func loadKnown() []known {
	f, err := os.Open(filepath.Join(verifDir, "known_findings.jsonl"))
	if err != nil {
		return nil
	}
	defer f.Close()
	var out []known
	sc := bufio.NewScanner(f)
	sc.Buffer(make([]byte, 1<<20), 1<<20)
	for sc.Scan() {
		line := strings.TrimSpace(sc.Text())
		if line == "" || strings.HasPrefix(line, "#") {
			continue
		}
		var k known
		if err := json.Unmarshal([]byte(line), &k); err != nil {
			infra("known_findings.jsonl: %v", err)
		}
		out = append(out, k)
	}
	return out
}

// build weaves and compiles the property's harness; returns binary path(s).
func build(id string, race bool) (bin string, digest string) {
	lid := strings.ToLower(id)
	ov := filepath.Join(buildDir, "ov-"+lid)
	out, err := run(simDir, goEnv(), filepath.Join(verifDir, "bin", "weave"),
		"-repo", repoDir, "-out", ov, "-rules", filepath.Join(verifDir, "weave", "rules.json"), "-prop", id)
	if err != nil {
		infra("weave failed: %v\n%s", err, out)
	}
	d, _ := os.ReadFile(filepath.Join(ov, "weave_digest"))
	digest = string(d)
	bin = filepath.Join(buildDir, lid+".test")
	tags := "verif"
	if extra, err := os.ReadFile(filepath.Join(ov, "tags")); err == nil && len(extra) > 0 {
		tags += "," + string(extra)
	}
	args := []string{"test", "-c", "-overlay", filepath.Join(ov, "overlay.json"), "-tags", tags, "-vet=off"}
	args = append(args, modfileArgs...)
	if race {
		bin = filepath.Join(buildDir, lid+".race.test")
		args = append(args, "-race")
	}
	args = append(args, "-o", bin, "./props/"+lid)
	out, err = run(simDir, goEnv(), goBin, args...)
	if err != nil {
		infra("build failed (%s race=%v): %v\n%s", id, race, err, out)
	}
	return
}

type batch struct {
	outs     []*workerOut
	stderrs  []string
	fps      map[uint64]struct{}
	wall     float64
	raceLogs []string
}

func runWorkers(id, bin, build, tier string, seed uint64, workers, runs int, budgetS float64, kn []known, digest string, only []string) *batch {
	b := &batch{fps: map[uint64]struct{}{}}
	start := time.Now()
	var wg sync.WaitGroup
	b.outs = make([]*workerOut, workers)
	b.stderrs = make([]string, workers)
	hardLimit := time.Duration((budgetS*1.5 + 240) * float64(time.Second))
	for k := 0; k < workers; k++ {
		k := k
		wg.Add(1)
		go func() {
			defer wg.Done()
			cfg := workerCfg{Property: id, Tier: tier, Seed: seed, Worker: k, Workers: workers, Runs: runs, BudgetS: budgetS,
				Out:       filepath.Join(buildDir, fmt.Sprintf("out-%s-%s-%d.json", strings.ToLower(id), build, k)),
				ReplayDir: filepath.Join(verifDir, "replays"), Known: kn, Build: build, WeaveDig: digest, Only: only}
			cfgPath := cfg.Out + ".cfg"
			raw, _ := json.Marshal(cfg)
			if err := os.WriteFile(cfgPath, raw, 0o644); err != nil {
				infra("%v", err)
			}
			env := append(os.Environ(), "VERIF_CFG="+cfgPath, "GOMAXPROCS=1", "GOTRACEBACK=all")
			if build == "race" {
				env = append(env, "GORACE=log_path="+cfg.Out+".racelog halt_on_error=0 history_size=2")
			}
			cmd := exec.Command(bin, "-test.run", "^TestWorker$", "-test.timeout", "0", "-test.v=false")
			cmd.Env = env
			cmd.Dir = buildDir
			var buf bytes.Buffer
			cmd.Stdout = &buf
			cmd.Stderr = &buf
			if err := cmd.Start(); err != nil {
				b.stderrs[k] = err.Error()
				return
			}
			done := make(chan error, 1)
			go func() { done <- cmd.Wait() }()
			select {
			case <-done:
			case <-time.After(hardLimit):
				_ = cmd.Process.Signal(syscall.SIGQUIT) // goroutine dump into the worker's output
				select {
				case <-done:
				case <-time.After(10 * time.Second):
					_ = cmd.Process.Kill()
					<-done
				}
				dump := filepath.Join(verifDir, "replays", fmt.Sprintf("watchdog-%s-%s-%d.log", strings.ToLower(id), build, k))
				_ = os.MkdirAll(filepath.Dir(dump), 0o755)
				_ = os.WriteFile(dump, buf.Bytes(), 0o644)
				buf.WriteString("\nWATCHDOG: worker killed after " + hardLimit.String() + "; goroutine dump in " + dump)
			}
			b.stderrs[k] = buf.String()
			raw, err := os.ReadFile(cfg.Out)
			if err != nil {
				return
			}
			var o workerOut
			if err := json.Unmarshal(raw, &o); err != nil {
				b.stderrs[k] += "\nbad worker output: " + err.Error()
				return
			}
			b.outs[k] = &o
		}()
	}
	wg.Wait()
	b.wall = time.Since(start).Seconds()
	for _, o := range b.outs {
		if o == nil || o.FPFile == "" {
			continue
		}
		raw, err := os.ReadFile(o.FPFile)
		if err != nil {
			continue
		}
		for i := 0; i+8 <= len(raw); i += 8 {
			b.fps[binary.LittleEndian.Uint64(raw[i:])] = struct{}{}
		}
	}
	return b
}

func tail(s string, n int) string {
	if len(s) > n {
		return "…" + s[len(s)-n:]
	}
	return s
}

// replayFresh re-runs a replay file in a fresh process.
func replayFresh(id, bin, build, path, digest string) (*workerOut, string) {
	cfg := workerCfg{Property: id, Replay: path, Out: filepath.Join(buildDir, "replay-out.json"), Build: build, WeaveDig: digest, Workers: 1}
	cfgPath := cfg.Out + ".cfg"
	raw, _ := json.Marshal(cfg)
	_ = os.WriteFile(cfgPath, raw, 0o644)
	_ = os.Remove(cfg.Out)
	env := append(os.Environ(), "VERIF_CFG="+cfgPath, "GOMAXPROCS=1")
	if build == "race" {
		env = append(env, "GORACE=log_path="+cfg.Out+".racelog halt_on_error=0 history_size=2")
	}
	out, _ := run(buildDir, env, bin, "-test.run", "^TestWorker$", "-test.timeout", "20m")
	raw, err := os.ReadFile(cfg.Out)
	if err != nil {
		return nil, out
	}
	var o workerOut
	if err := json.Unmarshal(raw, &o); err != nil {
		return nil, out
	}
	return &o, out
}

func main() {
	if len(os.Args) < 2 {
		fmt.Fprintln(os.Stderr, "usage: simcheck <Cxx> [--tier quick|thorough] | replay <file> | selftest [ids]")
		os.Exit(2)
	}
	buildDir = filepath.Join(verifDir, ".build", strconv.Itoa(os.Getpid()))
	if err := os.MkdirAll(buildDir, 0o755); err != nil {
		infra("%v", err)
	}
	defer cleanup()
	prepareModfile()
	switch os.Args[1] {
	case "replay":
		if len(os.Args) < 3 {
			infra("replay needs a file")
		}
		os.Exit(cmdReplay(os.Args[2]))
	case "selftest":
		os.Exit(cmdSelftest(os.Args[2:]))
	}
	id := strings.ToUpper(os.Args[1])
	tier := "quick"
	var only []string
	for i := 2; i < len(os.Args); i++ {
		switch os.Args[i] {
		case "--tier":
			if i+1 < len(os.Args) {
				tier = os.Args[i+1]
				i++
			}
		case "--only":
			if i+1 < len(os.Args) {
				only = strings.Split(os.Args[i+1], ",")
				i++
			}
		}
	}
	if t := os.Getenv("VERIF_TIER"); t == "quick" || t == "thorough" {
		tier = t
	}
	code := cmdCheck(id, tier, only)
	cleanup()
	os.Exit(code)
}

func cmdReplay(path string) int {
	raw, err := os.ReadFile(path)
	if err != nil {
		infra("%v", err)
	}
	var rf struct {
		Property string `json:"property"`
		Build    string `json:"build"`
	}
	if err := json.Unmarshal(raw, &rf); err != nil {
		infra("%v", err)
	}
	if _, ok := props[rf.Property]; !ok {
		infra("unknown property %q in replay file", rf.Property)
	}
	abs, _ := filepath.Abs(path)
	bin, digest := build(rf.Property, rf.Build == "race")
	o, out := replayFresh(rf.Property, bin, rf.Build, abs, digest)
	fmt.Print(out)
	if o == nil {
		infra("replay worker produced no output")
	}
	if o.Infra != "" {
		infra("%s", o.Infra)
	}
	if o.Violation != nil {
		fmt.Printf("VIOLATION property=%s replay=%s\n", rf.Property, abs)
		if !o.ReplayOK {
			fmt.Printf("note: %s\n", o.ReplayNotes)
		}
		return 1
	}
	fmt.Println("replay: property held (no violation reproduced)")
	return 0
}

func cmdCheck(id, tier string, only []string) int {
	pc, ok := props[id]
	if !ok {
		infra("unknown property %s", id)
	}
	start := time.Now()
	seed := uint64(envInt("VERIF_SEED", 1))
	workers := int(envInt("VERIF_WORKERS", 16))
	kn := loadKnown()
	bin, digest := build(id, false)
	var raceBin string
	if pc.Race {
		raceBin, _ = build(id, true)
	}
	buildS := time.Since(start).Seconds()

	runs, budget := pc.QuickRuns, pc.QuickBudgetS
	raceRuns := pc.RaceQuickRuns
	if v := envInt("VERIF_RUNS", 0); v > 0 {
		runs, raceRuns = int(v), int(v)/5
	}
	if tier == "thorough" {
		runs, raceRuns = 0, 0
		budget = float64(envInt("VERIF_BUDGET_S", int64(pc.ThoroughS)))
	}
	var batches []*batch
	var names []string
	if pc.Race {
		// plain and race builds share the cores
		var wg sync.WaitGroup
		var b1, b2 *batch
		wg.Add(2)
		go func() {
			defer wg.Done()
			b1 = runWorkers(id, bin, "plain", tier, seed, workers/2, runs, budget, kn, digest, only)
		}()
		go func() {
			defer wg.Done()
			b2 = runWorkers(id, raceBin, "race", tier, seed, workers-workers/2, raceRuns, budget, kn, digest, only)
		}()
		wg.Wait()
		batches, names = []*batch{b1, b2}, []string{"plain", "race"}
	} else {
		batches = []*batch{runWorkers(id, bin, "plain", tier, seed, workers, runs, budget, kn, digest, only)}
		names = []string{"plain"}
	}

	// ---- aggregate
	agg := workerOut{Scenarios: map[string]int64{}, Policies: map[string]int64{}, Probes: map[string]int64{}, Faults: map[string]int64{}, KnownSeen: map[string]int64{}}
	fps := map[uint64]struct{}{}
	var firstViol *workerOut
	var violBuild string
	var trouble string
	raceRunsDone := int64(0)
	for bi, b := range batches {
		for k, o := range b.outs {
			// Worker trouble (killed, out of memory, watchdog) is reported as
			// infrastructure trouble - unless another worker has a violation that
			// replays in a fresh process: that verdict stands on its own.
			if o == nil {
				if trouble == "" {
					trouble = fmt.Sprintf("worker %d (%s) produced no result:\n%s", k, names[bi], tail(b.stderrs[k], 6000))
				}
				continue
			}
			if o.Infra != "" {
				if trouble == "" {
					trouble = fmt.Sprintf("worker %d (%s): %s\n%s", k, names[bi], o.Infra, tail(b.stderrs[k], 3000))
				}
				continue
			}
			if agg.Rule == "" {
				agg.Rule, agg.Real, agg.Stub, agg.NotRun, agg.Assumptions = o.Rule, o.Real, o.Stub, o.NotRun, o.Assumptions
			}
			agg.Runs += o.Runs
			agg.Evals += o.Evals
			agg.Steps += o.Steps
			agg.SimTimeS += o.SimTimeS
			agg.Nontrivial += o.Nontrivial
			if names[bi] == "race" {
				raceRunsDone += o.Runs
			}
			for k, v := range o.Scenarios {
				agg.Scenarios[k] += v
			}
			for k, v := range o.Policies {
				agg.Policies[k] += v
			}
			for k, v := range o.Probes {
				agg.Probes[k] += v
			}
			for k, v := range o.Faults {
				agg.Faults[k] += v
			}
			for k, v := range o.KnownSeen {
				agg.KnownSeen[k] += v
			}
			for i := range o.Porcupine {
				agg.Porcupine[i] += o.Porcupine[i]
			}
			if len(agg.Samples) < 4 && len(o.Samples) > 0 {
				agg.Samples = append(agg.Samples, o.Samples[0])
			}
			if o.Violation != nil && (firstViol == nil || o.LastRun < firstViol.LastRun) {
				firstViol = o
				violBuild = names[bi]
			}
		}
		for k := range b.fps {
			fps[k] = struct{}{}
		}
	}
	wall := time.Since(start).Seconds()
	// keep only the replay file of the reported violation
	for _, b := range batches {
		for _, o := range b.outs {
			if o != nil && o.Violation != nil && o != firstViol && o.ReplayPath != "" && o.ReplayPath != firstViol.ReplayPath {
				_ = os.Remove(o.ReplayPath)
			}
		}
	}

	code := 0
	violations := 0
	var violLine string
	if firstViol == nil && trouble != "" {
		infra("%s", trouble)
	}
	if firstViol != nil {
		violations = 1
		vb := bin
		if violBuild == "race" {
			vb = raceBin
		}
		ro, rout := replayFresh(id, vb, violBuild, firstViol.ReplayPath, digest)
		for try := 0; try < 3 && violBuild == "race" && ro != nil && ro.Violation == nil && ro.Infra == ""; try++ {
			// the schedule replays exactly; whether the detector still remembers the
			// conflicting access does not (random shadow-cell eviction)
			ro, rout = replayFresh(id, vb, violBuild, firstViol.ReplayPath, digest)
		}
		if ro == nil || ro.Violation == nil || !ro.ReplayOK {
			notes := ""
			if ro != nil {
				notes = ro.ReplayNotes + " " + ro.Infra
			}
			writeEvidence(id, tier, seed, pc, &agg, fps, wall, buildS, raceRunsDone, 0, kn)
			infra("violation found (%s/%s/%s: %s) but its replay file %s did not reproduce identically in a fresh process: %s\n%s",
				firstViol.Violation.Oracle, firstViol.Violation.Op, firstViol.Violation.Detail, firstViol.Violation.Message,
				firstViol.ReplayPath, notes, tail(rout, 3000))
		}
		fmt.Printf("violation: oracle=%s op=%s detail=%s\n%s\n", firstViol.Violation.Oracle, firstViol.Violation.Op, firstViol.Violation.Detail, firstViol.Violation.Message)
		violLine = fmt.Sprintf("VIOLATION property=%s replay=%s", id, firstViol.ReplayPath)
		code = 1
	}
	writeEvidence(id, tier, seed, pc, &agg, fps, wall, buildS, raceRunsDone, violations, kn)
	for _, k := range kn {
		if k.Status == "known" && k.Property == id {
			fmt.Printf("KNOWN-FINDING: property=%s %s (seen %d times in this run)\n", id, k.What, agg.KnownSeen[k.What])
		}
	}
	if trouble != "" {
		fmt.Printf("note: besides the violation, %s\n", tail(trouble, 1500))
	}
	fmt.Printf("%s %s: runs=%d evaluations=%d distinct_nontrivial=%d steps=%d wall=%.1fs (build %.1fs) scenarios=%v\n",
		id, tier, agg.Runs, agg.Evals, len(fps), agg.Steps, wall, buildS, agg.Scenarios)
	if violLine != "" {
		fmt.Println(violLine)
	}
	return code
}

func sortedKeys(m map[string]int64) []string {
	var k []string
	for s := range m {
		k = append(k, s)
	}
	sort.Strings(k)
	return k
}

func writeEvidence(id, tier string, seed uint64, pc tierCfg, agg *workerOut, fps map[uint64]struct{}, wall, buildS float64, raceRuns int64, violations int, kn []known) {
	meta := agg
	if meta.Assumptions == nil {
		meta.Assumptions = []string{}
	}
	knownSeen := []string{}
	for _, k := range sortedKeys(agg.KnownSeen) {
		knownSeen = append(knownSeen, fmt.Sprintf("%s (x%d)", k, agg.KnownSeen[k]))
	}
	samples := agg.Samples
	if len(samples) == 0 {
		samples = []any{"no passing run completed"}
	}
	runWall := wall - buildS
	if runWall <= 0 {
		runWall = wall
	}
	cov := map[string]any{
		"evaluations":          agg.Evals,
		"distinct_nontrivial":  len(fps),
		"rule":                 meta.Rule,
		"samples":              samples,
		"runs":                 agg.Runs,
		"nontrivial_runs":      agg.Nontrivial,
		"runs_per_hour":        int64(float64(agg.Runs) / runWall * 3600),
		"seeds":                fmt.Sprintf("VERIF_SEED=%d, run index i uses tape seed splitmix(VERIF_SEED, i)", seed),
		"sim_time_covered_s":   agg.SimTimeS,
		"steps_total":          agg.Steps,
		"scenarios":            agg.Scenarios,
		"faults_fired":         agg.Faults,
		"probes_hit":           agg.Probes,
		"policies":             agg.Policies,
		"distinct_schedules":   len(fps),
		"components":           map[string]any{"real": meta.Real, "stub": meta.Stub, "not_run": meta.NotRun},
		"known_findings_seen":  knownSeen,
		"build_s":              buildS,
		"determinism_selftest": loadSelftest(id),
		"exhaustive":           false,
	}
	if agg.Porcupine[0]+agg.Porcupine[1]+agg.Porcupine[2] > 0 {
		cov["porcupine"] = map[string]int64{"ok": agg.Porcupine[0], "illegal": agg.Porcupine[1], "unknown": agg.Porcupine[2]}
	}
	if pc.Race {
		cov["race_build_runs"] = raceRuns
	}
	ev := map[string]any{
		"property_id": id,
		"tier":        tier,
		"seed":        seed,
		"level":       pc.Level,
		"coverage":    cov,
		"assumptions": meta.Assumptions,
		"wall_s":      wall,
		"violations":  violations,
	}
	evDir := filepath.Join(verifDir, "evidence")
	if d := os.Getenv("VERIF_EVIDENCE_DIR"); d != "" {
		// (the tools that run the checks against deliberately modified trees keep
		// their evidence out of /verif/evidence)
		evDir = d
	}
	_ = os.MkdirAll(evDir, 0o755)
	b, _ := json.MarshalIndent(ev, "", " ")
	if err := os.WriteFile(filepath.Join(evDir, id+".json"), b, 0o644); err != nil {
		infra("evidence: %v", err)
	}
}

// cmdSelftest proves determinism: every run index must produce the same
// event hash, number of draws and verdict in every execution: forward and
// reverse batch order in one process, many fresh processes, GOMAXPROCS 1/4/16,
// and (where the property has one) the race build.
func cmdSelftest(ids []string) int {
	if len(ids) == 0 {
		for id := range props {
			ids = append(ids, id)
		}
		sort.Strings(ids)
	}
	nRuns := int(envInt("VERIF_SELFTEST_RUNS", 200))
	nProc := int(envInt("VERIF_SELFTEST_PROCS", 30))
	seed := uint64(envInt("VERIF_SEED", 1))
	bad := 0
	for _, id := range ids {
		id = strings.ToUpper(id)
		pc, ok := props[id]
		if !ok {
			infra("unknown property %s", id)
		}
		bins := []string{}
		names := []string{}
		b, dg := build(id, false)
		bins, names = append(bins, b), append(names, "plain")
		if pc.Race {
			rb, _ := build(id, true)
			bins, names = append(bins, rb), append(names, "race")
		}
		type res struct {
			label  string
			hashes []string
			err    string
		}
		results := make([]res, 0, nProc)
		var mu sync.Mutex
		var wg sync.WaitGroup
		sem := make(chan struct{}, 16)
		gmp := []string{"1", "4", "16"}
		for i := 0; i < nProc; i++ {
			i := i
			wg.Add(1)
			sem <- struct{}{}
			go func() {
				defer wg.Done()
				defer func() { <-sem }()
				bi := 0
				if len(bins) > 1 && i%5 == 4 {
					bi = 1
				}
				cfg := workerCfg{Property: id, Tier: "quick", Seed: seed, Worker: 0, Workers: 1, Runs: nRuns, BudgetS: 0,
					Out: filepath.Join(buildDir, fmt.Sprintf("st-%s-%d.json", id, i)), ReplayDir: buildDir, Build: names[bi],
					WeaveDig: dg, HashOnly: true, Reverse: i%2 == 1}
				raw, _ := json.Marshal(cfg)
				cfgPath := cfg.Out + ".cfg"
				_ = os.WriteFile(cfgPath, raw, 0o644)
				env := append(os.Environ(), "VERIF_CFG="+cfgPath, "GOMAXPROCS="+gmp[i%3])
				if names[bi] == "race" {
					env = append(env, "GORACE=log_path="+cfg.Out+".racelog halt_on_error=0")
				}
				out, _ := run(buildDir, env, bins[bi], "-test.run", "^TestWorker$", "-test.timeout", "30m")
				r := res{label: fmt.Sprintf("proc%d/%s/GOMAXPROCS=%s/reverse=%v", i, names[bi], gmp[i%3], cfg.Reverse)}
				rawOut, err := os.ReadFile(cfg.Out)
				var o workerOut
				if err != nil || json.Unmarshal(rawOut, &o) != nil {
					r.err = "no output: " + tail(out, 2000)
				} else if o.Infra != "" {
					r.err = o.Infra
				} else {
					r.hashes = o.Hashes
					sort.Slice(r.hashes, func(a, b int) bool {
						ai, _ := strconv.Atoi(strings.SplitN(r.hashes[a], ":", 2)[0])
						bi, _ := strconv.Atoi(strings.SplitN(r.hashes[b], ":", 2)[0])
						return ai < bi
					})
				}
				mu.Lock()
				results = append(results, r)
				mu.Unlock()
			}()
		}
		wg.Wait()
		sort.Slice(results, func(a, b int) bool { return results[a].label < results[b].label })
		mism := 0
		var ref []string
		for _, r := range results {
			if r.err != "" {
				fmt.Printf("SELFTEST %s %s: ERROR %s\n", id, r.label, r.err)
				mism++
				continue
			}
			if ref == nil {
				ref = r.hashes
				continue
			}
			if len(ref) != len(r.hashes) {
				fmt.Printf("SELFTEST %s %s: %d hashes vs %d\n", id, r.label, len(r.hashes), len(ref))
				mism++
				continue
			}
			for j := range ref {
				if ref[j] != r.hashes[j] {
					fmt.Printf("SELFTEST %s %s: run %s differs from %s\n", id, r.label, r.hashes[j], ref[j])
					mism++
					break
				}
			}
		}
		fmt.Printf("SELFTEST %s: %d runs x %d executions, mismatching executions: %d\n", id, nRuns, len(results), mism)
		bad += mism
		recordSelftest(id, nRuns, len(results), mism)
	}
	if bad > 0 {
		return 2
	}
	return 0
}

// recordSelftest keeps the last determinism self-test result per property in
// evidence/determinism_selftest.json; writeEvidence quotes it.
func recordSelftest(id string, runs, executions, mismatches int) {
	path := filepath.Join(verifDir, "evidence", "determinism_selftest.json")
	all := map[string]map[string]int{}
	if raw, err := os.ReadFile(path); err == nil {
		_ = json.Unmarshal(raw, &all)
	}
	all[id] = map[string]int{"run_indices": runs, "executions": executions, "mismatching_executions": mismatches}
	_ = os.MkdirAll(filepath.Dir(path), 0o755)
	b, _ := json.MarshalIndent(all, "", " ")
	_ = os.WriteFile(path, b, 0o644)
}

func loadSelftest(id string) any {
	raw, err := os.ReadFile(filepath.Join(verifDir, "evidence", "determinism_selftest.json"))
	if err != nil {
		return "not run in this checkout (./check selftest)"
	}
	all := map[string]map[string]int{}
	if json.Unmarshal(raw, &all) != nil || all[id] == nil {
		return "not run for this property (./check selftest)"
	}
	return all[id]
}
