package c07

import (
	"bytes"
	"fmt"
	"io"
	"testing"

	mcnet "github.com/Tnze/go-mc/net"
	pk "github.com/Tnze/go-mc/net/packet"

	"verifsim/gen"
	"verifsim/harness"
	"verifsim/kernel"
	"verifsim/oracle/frame"
	"verifsim/simnet"
	"verifsim/simrt"
	"verifsim/tape"
)

var (
	pCompressedBranch   = simrt.NewProbe("frame.compressed.branch")
	pUncompressedMarker = simrt.NewProbe("frame.uncompressed.marker.branch")
	pPlainBranch        = simrt.NewProbe("frame.no.compression.branch")
	pAtThreshold        = simrt.NewProbe("frame.payload.at.threshold+-2")
	pReuseShrink        = simrt.NewProbe("receiver.reused.packet.shrinks")
	pLarge              = simrt.NewProbe("frame.payload>=64KiB")
	pSecondPair         = simrt.NewProbe("second.connection.shares.pools")
	pLongHistory        = simrt.NewProbe("stream.long.history(300..3300 packets)")
	pForgedNeg          = simrt.NewProbe("forged.negative")
	pForgedBig          = simrt.NewProbe("forged.over.maximum")
	pForgedBelow        = simrt.NewProbe("forged.below.threshold")
)

const trailer = "\xfeTRAILER\x01"

type sent struct {
	id   int32
	data []byte
}

// coarse returns a link configuration for bulk data (few park points).
func coarse() simnet.LinkCfg {
	return simnet.LinkCfg{CutAt: -1, StallAt: -1, SegMode: 0, ReadMode: 0, YieldDen: 1}
}

type pair struct {
	name      string
	threshold int
	pkts      []sent
	viaConn   []bool
	recvMode  int // 0 reuse one Packet, 1 fresh each, 2 pre-filled
	recvSalt  int
	// after packet switchAt-1 both ends change the threshold to threshold2 (as
	// the login's Set Compression does); 0 = no switch
	switchAt   int
	threshold2 int
	// nullCipher: both ends install an identity cipher AFTER setting the
	// threshold (the threshold must survive it); only Conn paths are used then
	nullCipher bool
	link       *simnet.Link
	got        []pk.Packet // retained values (fresh mode)
	big        bool
}

//go:norace
func (p *pair) retain(q pk.Packet) { p.got = append(p.got, q) }

type forgedState struct {
	err      error
	returned bool
	got      pk.Packet
}

//go:norace
func (f *forgedState) set(p pk.Packet, err error) { f.got, f.err, f.returned = p, err, true }

func drawPair(tp *tape.Tape, name string, tag int, maxPkts int) *pair {
	p := &pair{name: name}
	p.threshold = gen.Threshold(tp, true)
	n := 1 + tp.Pick(6, 6, 5, 4, 3, 3, 2, 2, 1, 1)
	if tp.Bool(1, 6) {
		n = 1 + tp.Choose(maxPkts)
	}
	// long warm-up histories of small packets (state carried across many
	// operations on one connection and in the shared pools)
	long := maxPkts >= 50 && tp.Bool(1, 40)
	if long {
		pLongHistory.Hit()
		n = 300 + tp.Choose(3000)
	}
	total := 0
	for i := 0; i < n; i++ {
		id := gen.PacketID(tp)
		maxLen := 1<<21 - 5
		if total > 1<<20 || !tp.Bool(1, 25) {
			maxLen = 40000
		}
		if long {
			maxLen = 300
		}
		l := gen.PayloadLen(tp, p.threshold, id, maxLen)
		if maxLen > 40000 && tp.Bool(1, 4) {
			// anywhere between 64 KiB and the maximum: sizes that are special only
			// through buffer growth, allocator size classes or deflate block
			// overheads (C07-35)
			l = 64<<10 + tp.Choose(maxLen-64<<10+1)
		}
		total += l
		if l >= 64<<10 {
			p.big = true
			pLarge.Hit()
		}
		if p.threshold > 0 && l >= p.threshold-2 && l <= p.threshold+2 {
			pAtThreshold.Hit()
		}
		p.pkts = append(p.pkts, sent{id, gen.Fill(tp, l, tag, i)})
		p.viaConn = append(p.viaConn, tp.Bool(1, 2))
	}
	p.recvMode = tp.Choose(3)
	p.recvSalt = tp.Choose(30)
	if tp.Bool(1, 5) {
		p.nullCipher = true
		pNullCipher.Hit()
		for j := range p.viaConn {
			p.viaConn[j] = true
		}
	}
	if len(p.pkts) >= 2 && tp.Bool(1, 4) {
		p.switchAt = 1 + tp.Choose(len(p.pkts)-1)
		p.threshold2 = gen.Threshold(tp, false)
		pThresholdSwitch.Hit()
	}
	return p
}

func scenarioStream(c *harness.Ctx) {
	tp := c.T
	pairs := []*pair{drawPair(tp, "p0", 1, 50)}
	if tp.Bool(1, 3) {
		pairs = append(pairs, drawPair(tp, "p1", 2, 12))
		pSecondPair.Hit()
	}
	cfgs := make([]simnet.LinkCfg, len(pairs))
	for i, p := range pairs {
		total := 0
		for _, s := range p.pkts {
			total += len(s.data) + 8
		}
		cfgs[i] = simnet.DrawCfgFor(tp, total)
	}
	// Neighbours in trouble: other connections of the same process whose peers
	// die in the middle of a frame or send a frame the receiver must refuse. Their
	// receivers fail (that is the point); the pairs, which share the package's
	// pools with them, must not notice.
	type doomedConn struct {
		th    int
		bytes []byte
	}
	var doomed []doomedConn
	if tp.Bool(1, 3) {
		pDoomed.Hit()
		for k := 1 + tp.Choose(3); k > 0; k-- {
			th := []int{-1, 0, 1, 64, 256}[tp.Choose(5)]
			id := gen.PacketID(tp)
			data := gen.Fill(tp, tp.Choose(3000), 9, k)
			fr := frame.Build(id, data, th >= 0, th >= 0 && len(data) >= th && tp.Bool(2, 3))
			switch tp.Choose(3) {
			case 0, 1:
				// the peer dies inside the frame (after its length and at least one more byte, when there is one)
				if len(fr) > 2 {
					fr = fr[:2+tp.Choose(len(fr)-2)]
				}
			default:
				// a complete frame with a declared size the receiver must refuse
				if th >= 0 {
					body := append(frame.PutVarint(nil, int32(1<<21+1+tp.Choose(1000))), fr[1:]...)
					fr = append(frame.PutVarint(nil, int32(len(body))), body...)
				} else {
					fr = frame.PutVarint(nil, -int32(1+tp.Choose(100)))
				}
			}
			doomed = append(doomed, doomedConn{th, fr})
		}
	}
	c.Config["doomed_neighbours"] = len(doomed)
	c.Config["pairs"] = len(pairs)
	for i, p := range pairs {
		lens := make([]int, len(p.pkts))
		for j := range p.pkts {
			lens[j] = len(p.pkts[j].data)
		}
		c.Config[fmt.Sprintf("pair%d", i)] = map[string]any{"threshold": p.threshold, "payload_lens": lens, "recv_mode": p.recvMode,
			"seg_mode": cfgs[i].SegMode, "read_mode": cfgs[i].ReadMode, "window": cfgs[i].Window}
	}
	out, w := c.World(func(w *kernel.World) {
		for k, d := range doomed {
			d := d
			dl := simnet.Pipe(w, fmt.Sprintf("doomed%d", k), simnet.DrawCfgFor(tp, len(d.bytes)), coarse())
			// (a daemon: a receiver may give up after the frame's first bytes and never
			// read the rest, the peer then stays blocked on the window - not a verdict)
			w.GoDaemon(fmt.Sprintf("dying-peer%d", k), func() {
				dl.A.Write(d.bytes)
				dl.A.Close()
			})
			w.Go(fmt.Sprintf("doomed-recv%d", k), func() {
				var q pk.Packet
				if k%2 == 0 {
					conn := mcnet.WrapConn(dl.B)
					conn.SetThreshold(d.th)
					_ = conn.ReadPacket(&q) // whatever it returns is not this scenario's business
				} else {
					_ = q.UnPack(dl.B, d.th)
				}
				dl.B.Close()
			})
		}
		for i, p := range pairs {
			p := p
			p.link = simnet.Pipe(w, p.name, cfgs[i], coarse())
			w.Go("send-"+p.name, func() {
				conn := mcnet.WrapConn(p.link.A)
				conn.SetThreshold(p.threshold)
				if p.nullCipher {
					conn.SetCipher(nullStream{}, nullStream{})
				}
				for j, s := range p.pkts {
					th := p.threshold
					if p.switchAt > 0 && j >= p.switchAt {
						th = p.threshold2
						if j == p.switchAt {
							conn.SetThreshold(th)
						}
					}
					var err error
					if p.viaConn[j] {
						err = conn.WritePacket(pk.Packet{ID: s.id, Data: s.data})
					} else {
						q := pk.Packet{ID: s.id, Data: s.data}
						err = q.Pack(p.link.A, th)
					}
					if err != nil {
						c.Fail("frame.pack", "pack", "error", "%s: packing packet %d (id=%d len=%d threshold=%d) failed: %v", p.name, j, s.id, len(s.data), p.threshold, err)
						return
					}
				}
				if _, err := p.link.A.Write([]byte(trailer)); err != nil {
					c.Infra = "writing trailer: " + err.Error()
				}
			})
			w.Go("recv-"+p.name, func() {
				conn := mcnet.WrapConn(p.link.B)
				conn.SetThreshold(p.threshold)
				if p.nullCipher {
					conn.SetCipher(nullStream{}, nullStream{})
				}
				var reused pk.Packet
				prevLen := -1
				for j, s := range p.pkts {
					var q *pk.Packet
					switch p.recvMode {
					case 0:
						q = &reused
						if prevLen > len(s.data) {
							pReuseShrink.Hit()
						}
					case 1:
						q = new(pk.Packet)
					default:
						// pre-filled receiver whose length and capacity relate to the
						// incoming payload in every way: shorter, equal, longer, with
						// spare capacity below / at / above the payload length
						l := []int{0, 1, len(s.data) / 2, len(s.data), len(s.data) + 1, 1 + (j*37)%200}[(j+p.recvSalt)%6]
						cp := l + []int{0, 0, 1, len(s.data), len(s.data) + 7}[(j/2+p.recvSalt)%5]
						if l > 1<<16 {
							l, cp = 16, 16
						}
						buf := make([]byte, l, cp)
						for i := range buf[:cap(buf)] {
							buf[:cap(buf)][i] = 0xAA
						}
						q = &pk.Packet{ID: 0x55, Data: buf}
					}
					th := p.threshold
					if p.switchAt > 0 && j >= p.switchAt {
						th = p.threshold2
						if j == p.switchAt {
							conn.SetThreshold(th)
						}
					}
					var err error
					if j%2 == 0 || p.nullCipher {
						err = conn.ReadPacket(q)
					} else {
						err = q.UnPack(p.link.B, th)
					}
					if err != nil {
						c.Fail("frame.roundtrip", "unpack", "error", "%s: unpacking packet %d (id=%d len=%d threshold=%d) failed: %v", p.name, j, s.id, len(s.data), p.threshold, err)
						return
					}
					if q.ID != s.id || !bytes.Equal(q.Data, s.data) {
						c.Fail("frame.roundtrip", "unpack", "mismatch", "%s: packet %d: sent id=%d len=%d, received id=%d len=%d (threshold=%d, first difference at %d)",
							p.name, j, s.id, len(s.data), q.ID, len(q.Data), p.threshold, firstDiff(q.Data, s.data))
						return
					}
					prevLen = len(s.data)
					if p.recvMode == 1 {
						p.retain(*q)
					}
				}
				// exactly-one-frame consumption: the trailer must still be there
				buf := make([]byte, len(trailer))
				if _, err := io.ReadFull(p.link.B, buf); err != nil || string(buf) != trailer {
					c.Fail("frame.consumption", "unpack", "trailer", "%s: after %d reads the stream does not continue with the sentinel trailer: got %q err=%v", p.name, len(p.pkts), buf, err)
				}
			})
		}
	})
	if c.Infra != "" {
		return
	}
	c.TaskPanics(w, "frame")
	if c.Failed() {
		return
	}
	if out != kernel.OutDone {
		c.Fail("frame.liveness", "stream", fmt.Sprint(out), "world did not finish: outcome=%v deadlock=%v steps=%d", out, w.DeadlockAt, w.Steps)
		return
	}
	for _, p := range pairs {
		// retained packets must not have been modified by later calls
		for j, g := range p.got {
			if g.ID != p.pkts[j].id || !bytes.Equal(g.Data, p.pkts[j].data) {
				c.Fail("frame.retained", "unpack", "late-corruption", "%s: packet %d returned earlier was modified by later operations (pooled buffer leaked into Packet.Data?)", p.name, j)
				return
			}
		}
		// the wire must be conformant frames as judged by the independent reader
		wire := p.link.TapAB()
		c.FoldBytes(wire)
		rest := wire
		for j, s := range p.pkts {
			th := p.threshold
			if p.switchAt > 0 && j >= p.switchAt {
				th = p.threshold2
			}
			f, r, err := frame.Next(rest, th >= 0, th)
			if err != nil {
				c.Fail("frame.conformance", "pack", "unparseable", "%s: frame %d (id=%d len=%d threshold=%d) rejected by the reference reader: %v", p.name, j, s.id, len(s.data), p.threshold, err)
				return
			}
			if f.ID != s.id || !bytes.Equal(f.Payload, s.data) {
				c.Fail("frame.conformance", "pack", "content", "%s: frame %d decodes to id=%d len=%d, expected id=%d len=%d", p.name, j, f.ID, len(f.Payload), s.id, len(s.data))
				return
			}
			switch {
			case th < 0:
				pPlainBranch.Hit()
			case f.Compressed:
				pCompressedBranch.Hit()
			default:
				pUncompressedMarker.Hit()
			}
			rest = r
		}
		if string(rest) != trailer {
			c.Fail("frame.conformance", "pack", "extra-bytes", "%s: %d unexpected bytes on the wire after the last frame", p.name, len(rest)-len(trailer))
			return
		}
	}
}

func firstDiff(a, b []byte) int {
	for i := 0; i < len(a) && i < len(b); i++ {
		if a[i] != b[i] {
			return i
		}
	}
	if len(a) != len(b) {
		if len(a) < len(b) {
			return len(a)
		}
		return len(b)
	}
	return -1
}

// scenarioForged: a byzantine peer sends frames with illegal declared sizes.
func scenarioForged(c *harness.Ctx) {
	tp := c.T
	kind := tp.Choose(3)
	compression := tp.Bool(2, 3)
	threshold := -1
	if compression {
		threshold = []int{0, 1, 2, 64, 256, 300, 5000}[tp.Choose(7)]
	}
	if kind == 2 {
		compression = true
		threshold = []int{2, 3, 64, 256, 300, 5000}[tp.Choose(6)]
	}
	var forged []byte
	desc := ""
	id := int32(tp.Choose(100))
	switch kind {
	case 0: // negative
		pForgedNeg.Hit()
		neg := []int32{-1, -2, -128, -0x80000000, -70000}[tp.Choose(5)]
		if !compression && tp.Bool(1, 2) {
			// total length positive but smaller than the id's own encoding: the
			// declared payload size (length - len(id)) is negative
			longID := []int32{128, 16384, 1 << 21, 1 << 28, -1}[tp.Choose(5)]
			idb := frame.PutVarint(nil, longID)
			l := 1 + tp.Choose(len(idb)-1)
			forged = frame.PutVarint(nil, int32(l))
			forged = append(forged, idb...)
			forged = append(forged, bytes.Repeat([]byte{0}, 64)...)
			desc = fmt.Sprintf("uncompressed total length %d with a %d-byte id (payload size %d)", l, len(idb), l-len(idb))
		} else if !compression {
			forged = frame.PutVarint(nil, neg)
			forged = append(forged, bytes.Repeat([]byte{0}, 64)...)
			desc = fmt.Sprintf("uncompressed total length %d", neg)
		} else if threshold <= 2 && tp.Bool(1, 3) {
			// data length positive (and not below the threshold) but smaller than the
			// id's own encoding inside a well-formed zlib stream: the declared
			// payload size (data length - len(id)) is negative
			pForgedShortDL.Hit()
			longID := []int32{16384, 1 << 21, 1 << 28, -1}[tp.Choose(4)]
			idLen := len(frame.PutVarint(nil, longID))
			lo := max(1, threshold)
			dl := lo + tp.Choose(idLen-lo)
			whole := frame.Build(longID, tp.Bytes(tp.Choose(40)), true, true)
			_, hl, _ := varintLen(whole)
			_, dll, _ := varintLen(whole[hl:])
			body := append(frame.PutVarint(nil, int32(dl)), whole[hl+dll:]...)
			forged = frame.PutVarint(nil, int32(len(body)))
			forged = append(forged, body...)
			desc = fmt.Sprintf("data length %d with a %d-byte id in the zlib stream (payload size %d)", dl, idLen, dl-idLen)
		} else {
			body := frame.PutVarint(nil, neg) // data length negative
			if tp.Bool(1, 2) {
				body = append(body, frame.Build(id, tp.Bytes(20), false, false)...)
			} else {
				// ... in front of a perfectly well-formed zlib stream
				whole := frame.Build(id, tp.Bytes(tp.Choose(40)), true, true)
				_, hl, _ := varintLen(whole)
				_, dl, _ := varintLen(whole[hl:])
				body = append(body, whole[hl+dl:]...)
			}
			forged = frame.PutVarint(nil, int32(len(body)))
			forged = append(forged, body...)
			desc = fmt.Sprintf("data length %d", neg)
		}
	case 1: // over maximum (clear of the +-idLen ambiguity)
		pForgedBig.Hit()
		size := 1<<21 + 6 + tp.Choose(3)*1000
		payload := make([]byte, size)
		if !compression {
			forged = frame.Build(id, payload, false, false)
			desc = fmt.Sprintf("uncompressed payload of %d bytes", size)
		} else {
			forged = frame.Build(id, payload, true, true)
			desc = fmt.Sprintf("compressed frame with data length %d", size+1)
		}
	case 2: // non-zero and below threshold
		pForgedBelow.Hit()
		n := tp.Choose(threshold - 1) // id (1 byte) + n < threshold
		forged = frame.Build(id, tp.Bytes(n), true, true)
		desc = fmt.Sprintf("compressed frame with data length %d below threshold %d", n+1, threshold)
	}
	valid := frame.Build(7, []byte("after"), compression, false)
	useConn := tp.Bool(1, 2)
	bigReceiver := tp.Bool(1, 2)
	if bigReceiver {
		pForgedBigReceiver.Hit()
	}
	cfg := simnet.DrawCfgFor(tp, len(forged))
	c.Config["kind"] = kind
	c.Config["threshold"] = threshold
	c.Config["desc"] = desc
	st := &forgedState{}
	out, w := c.World(func(w *kernel.World) {
		link := simnet.Pipe(w, "forged", cfg, coarse())
		w.Go("byzantine", func() {
			link.A.Write(forged)
			link.A.Write(valid)
			link.A.Write(bytes.Repeat([]byte{0}, 256))
		})
		w.Go("victim", func() {
			var got pk.Packet
			if bigReceiver {
				// a receiver that already owns a large buffer (pre-allocated by the
				// caller, or left over from building a big packet)
				got.Data = make([]byte, 16, 5<<20)
			}
			var err error
			if useConn {
				conn := mcnet.WrapConn(link.B)
				conn.SetThreshold(threshold)
				err = conn.ReadPacket(&got)
			} else {
				err = got.UnPack(link.B, threshold)
			}
			st.set(got, err)
			w.RequestStop()
		})
	})
	gotErr, returned, got := st.err, st.returned, st.got
	if c.Infra != "" {
		return
	}
	c.TaskPanics(w, "reject")
	if c.Failed() {
		return
	}
	c.Fold(uint64(kind), uint64(threshold+1))
	kinds := []string{"negative", "over-maximum", "below-threshold"}
	if !returned {
		c.Fail("frame.reject", "unpack", kinds[kind]+"/hang", "receiver neither rejected nor returned for %s (outcome %v, %v)", desc, out, w.DeadlockAt)
		return
	}
	if gotErr == nil {
		c.Fail("frame.reject", "unpack", kinds[kind], "receiver accepted a frame with %s (threshold %d): returned id=%d len=%d and a nil error", desc, threshold, got.ID, len(got.Data))
	}
}

var prop = &harness.Property{
	ID: "C07",
	Scenarios: []harness.Scenario{
		{Name: "stream", Weight: 8, Run: scenarioStream},
		{Name: "forged", Weight: 2, Run: scenarioForged},
	},
	Real:        []string{"net/packet.Packet.Pack/UnPack (both modes)", "net.Conn.WritePacket/ReadPacket/SetThreshold", "compress/zlib"},
	Stub:        []string{"simulated byte-stream link (simnet)", "bufPool/zlibPool sync.Pool (simulator-owned simsync.Pool)", "byzantine sender (forged frames)"},
	Rule:        "a run is one seeded world: 1-2 sender/receiver pairs sharing the pools, each with a drawn threshold, 1-50 packets (ids over int32, lengths around threshold and VarInt boundaries), link segmentation/coalescing/window/latency and pool policy drawn from the tape; or one forged frame. Non-trivial = more context switches than tasks; distinct = distinct (task, park-site) sequence hash",
	Assumptions: []string{"the independent frame reader (own LEB128 + compress/zlib) is the judge of conformance", "the link is a reliable ordered byte stream (TCP); loss/duplication are not injected below it"},
}

func TestWorker(t *testing.T) { harness.Main(t, prop) }

var pForgedBigReceiver = simrt.NewProbe("forged.receiver.with.pre-allocated.capacity>2MiB")

// varintLen decodes a VarInt and returns its value and encoded length.
func varintLen(b []byte) (int32, int, error) {
	var u uint32
	for i := 0; i < 5 && i < len(b); i++ {
		u |= uint32(b[i]&0x7f) << (7 * uint(i))
		if b[i]&0x80 == 0 {
			return int32(u), i + 1, nil
		}
	}
	return 0, 0, io.ErrUnexpectedEOF
}

var pThresholdSwitch = simrt.NewProbe("stream.threshold.changed.mid-connection(both.ends)")

// nullStream is the identity cipher: the wire stays readable by the frame oracle.
type nullStream struct{}

func (nullStream) XORKeyStream(dst, src []byte) { copy(dst, src) }

var pNullCipher = simrt.NewProbe("stream.identity.cipher.installed.after.SetThreshold")

var pForgedShortDL = simrt.NewProbe("forged.data.length.shorter.than.the.id.in.the.zlib.stream")

var pDoomed = simrt.NewProbe("stream.neighbour.connections.whose.frames.are.truncated.or.refused")
