//go:build verif

package c15

import (
	"bytes"
	"fmt"
	"testing"

	"github.com/Tnze/go-mc/save/region"

	"verifsim/harness"
	"verifsim/oracle/anvil"
	"verifsim/regionsim"
	"verifsim/simdisk"
	"verifsim/simrt"
)

var (
	fCrashPrefix = simrt.NewFault("crash.after.prefix.of.physical.writes")
	fCrashTorn   = simrt.NewFault("crash.torn.final.write")
	fDiskErr     = simrt.NewFault("disk.error.short.write.then.region.discarded")
	pContinue    = simrt.NewProbe("history.continues.on.recovered.image")
	pTargetOld   = simrt.NewProbe("interrupted.chunk.reads.old")
	pTargetNew   = simrt.NewProbe("interrupted.chunk.reads.new")
	pTargetOther = simrt.NewProbe("interrupted.chunk.absent.or.unreadable.or.mixed")
	pJournal4    = simrt.NewProbe("write.with.header.update(>=4.physical.writes)")
	pJournal2    = simrt.NewProbe("write.in.place(2.physical.writes)")
	pFragmented  = simrt.NewProbe("crash.on.fragmented.state(>=1 hole)")
	pTornEntry   = simrt.NewProbe("recovery.not.continued:torn.header.entry")
)

type crashStats struct {
	points int64
}

// checkImage is the C15 oracle on one crash image.
func checkImage(c *harness.Ctx, v *simdisk.View, pre map[regionsim.Key][]byte, unknown map[regionsim.Key]bool, target regionsim.Key, newData []byte, what string) bool {
	v.Pos = 0
	r, err := region.Load(v)
	if err != nil {
		c.Fail("crash.reopen", "load", "error", "%s: re-opening the file fails: %v", what, err)
		return false
	}
	for _, k := range regionsim.SortedKeys(pre) {
		want := pre[k]
		if k == target || unknown[k] {
			continue
		}
		got, err := r.ReadSector(k.X, k.Z)
		if err != nil {
			c.Fail("crash.other-chunk", "read", "unreadable", "%s (writing chunk (%d,%d)): chunk (%d,%d), which was not being written, is no longer readable: %v", what, target.X, target.Z, k.X, k.Z, err)
			return false
		}
		if !bytes.Equal(got, want) {
			c.Fail("crash.other-chunk", "read", "damaged", "%s (writing chunk (%d,%d)): chunk (%d,%d), which was not being written, reads back %d bytes that differ from its last written %d bytes", what, target.X, target.Z, k.X, k.Z, len(got), len(want))
			return false
		}
	}
	for z := 0; z < 32; z++ {
		for x := 0; x < 32; x++ {
			k := regionsim.Key{X: x, Z: z}
			if k == target || unknown[k] {
				continue
			}
			if _, ok := pre[k]; !ok && r.ExistSector(x, z) {
				c.Fail("crash.other-chunk", "exist", "appeared", "%s (writing chunk (%d,%d)): chunk (%d,%d) was never written but now exists", what, target.X, target.Z, x, z)
				return false
			}
		}
	}
	entries, err := anvil.Header(v, v.Size)
	if err != nil {
		c.Fail("crash.reopen", "parse", "header", "%s: %v", what, err)
		return false
	}
	// layout of everything except the target (and chunks already unknown)
	var es []anvil.Entry
	for _, e := range entries {
		if unknown[regionsim.Key{X: e.X, Z: e.Z}] {
			continue
		}
		es = append(es, e)
	}
	if err := anvil.CheckLayout(es, true, target.X, target.Z); err != nil {
		c.Fail("crash.other-chunk", "layout", "overlap", "%s (writing chunk (%d,%d)): %v", what, target.X, target.Z, err)
		return false
	}
	// what became of the interrupted chunk (recorded, never asserted)
	got, err := r.ReadSector(target.X, target.Z)
	switch {
	case err == nil && bytes.Equal(got, newData):
		pTargetNew.Hit()
	case err == nil && pre[target] != nil && bytes.Equal(got, pre[target]):
		pTargetOld.Hit()
	default:
		pTargetOther.Hit()
	}
	return true
}

// tears returns the torn lengths to try for a write of n bytes.
func tears(c *harness.Ctx, off int64, n int) []int {
	var t []int
	if n <= 1 {
		return nil
	}
	for b := 512; b < n; b += 512 {
		t = append(t, b)
	}
	// boundaries of the *file's* 512-byte blocks as well (a data write starts
	// 4 bytes into its sector, so these differ from the write-relative ones)
	if first := int(512 - off%512); first != 512 {
		for b := first; b < n; b += 512 {
			t = append(t, b)
		}
	}
	if c.Tier != "thorough" && len(t) > 64 {
		// boundaries nearest both ends plus samples
		var s []int
		s = append(s, t[:24]...)
		s = append(s, t[len(t)-24:]...)
		for i := 0; i < 16; i++ {
			s = append(s, t[24+c.T.Choose(len(t)-48)])
		}
		t = s
	}
	t = append(t, 1, n-1)
	if n > 4 {
		t = append(t, 2, 3, 1+c.T.Choose(n-1))
	}
	return t
}

// enumerate checks every crash point of one WriteSector.
func enumerate(c *harness.Ctx, s *regionsim.Sim, k regionsim.Key, before []byte, journal []simdisk.Write, pre map[regionsim.Key][]byte) bool {
	newData := s.Model[k]
	switch {
	case len(journal) >= 4:
		pJournal4.Hit()
	case len(journal) == 2:
		pJournal2.Hit()
	}
	if len(before) > 8192 {
		// a hole exists if some sector below the end is unused by pre
		used := 2
		for _, d := range pre {
			used += (len(d) + 4 + 4095) / 4096
		}
		if used*4096 < len(before) {
			pFragmented.Hit()
		}
	}
	for j := 0; j <= len(journal); j++ {
		what := fmt.Sprintf("crash after %d of %d physical writes", j, len(journal))
		fCrashPrefix.Hit()
		c.Evals++
		if !checkImage(c, simdisk.Crash(before, journal, j, -1), pre, s.Unknown, k, newData, what) {
			return false
		}
		if j < len(journal) {
			for _, t := range tears(c, journal[j].Off, len(journal[j].Data)) {
				what := fmt.Sprintf("crash with physical write %d of %d (offset %d, %d bytes) torn after %d bytes", j+1, len(journal), journal[j].Off, len(journal[j].Data), t)
				fCrashTorn.Hit()
				c.Evals++
				if !checkImage(c, simdisk.Crash(before, journal, j, t), pre, s.Unknown, k, newData, what) {
					return false
				}
			}
		}
	}
	return true
}

func nOps(c *harness.Ctx) int {
	tp := c.T
	switch tp.Pick(4, 4, 2) {
	case 0:
		return 1 + tp.Choose(6)
	case 1:
		return 1 + tp.Choose(25)
	}
	return 1 + tp.Choose(80)
}

// scenarioCrash: a C14-style history; every crash point of every write is
// enumerated.
func scenarioCrash(c *harness.Ctx) {
	tp := c.T
	defer simrt.SetClock(nil)
	c.Evals = 0
	s := regionsim.New(c, nil)
	if !s.Open() {
		return
	}
	s.OnWrite = func(s *regionsim.Sim, k regionsim.Key, before []byte, journal []simdisk.Write, pre map[regionsim.Key][]byte) bool {
		return enumerate(c, s, k, before, journal, pre)
	}
	n := nOps(c)
	allowBig := tp.Bool(1, 40)
	c.Config["ops"] = n
	c.Config["writer_at"] = s.WriterAt
	for i := 0; i < n; i++ {
		if !s.Step(allowBig) {
			return
		}
		c.Fold(s.Fingerprint())
	}
	c.Fold(uint64(c.Evals))
	c.Nontrivial = c.Evals > 0
	c.FP = c.Hash
	c.Steps = s.Ops
	if c.Evals == 0 {
		c.Evals = 1
	}
}

// scenarioRecover: a write is interrupted (crash image chosen by the tape, or
// an injected short write with EIO/ENOSPC after which the Region object is
// discarded); the history then continues on the re-opened file, whose target
// chunk is "unknown until next successful write".
func scenarioRecover(c *harness.Ctx) {
	tp := c.T
	defer simrt.SetClock(nil)
	c.Evals = 0
	s := regionsim.New(c, nil)
	if !s.Open() {
		return
	}
	rounds := 1 + tp.Choose(4)
	c.Config["rounds"] = rounds
	for round := 0; round < rounds; round++ {
		// some ordinary history first
		s.OnWrite = func(s *regionsim.Sim, k regionsim.Key, before []byte, journal []simdisk.Write, pre map[regionsim.Key][]byte) bool {
			return enumerate(c, s, k, before, journal, pre)
		}
		for i := tp.Choose(12); i > 0; i-- {
			if !s.Step(false) {
				return
			}
		}
		// the interrupted write
		k := s.Coord()
		size := regionsim.Size(tp, false)
		pre := map[regionsim.Key][]byte{}
		for kk, v := range s.Model {
			pre[kk] = v
		}
		before := append([]byte(nil), s.Disk.Img...)
		data := regionsim.Content(k, 9000+round, size)
		var img []byte
		// a healthy run of the same write on a scratch copy tells the journal
		scratch := simdisk.New(append([]byte(nil), before...))
		var rw interface {
			Read([]byte) (int, error)
			Write([]byte) (int, error)
			Seek(int64, int) (int64, error)
		} = scratch
		if s.WriterAt {
			rw = simdisk.FileAt{File: scratch}
		}
		r2, err := region.Load(rw)
		if err != nil {
			c.Fail("crash.reopen", "load", "error", "loading the current image failed: %v", err)
			return
		}
		scratch.Record = true
		if err := r2.WriteSector(k.X, k.Z, data); err != nil {
			c.Fail("region.write", "write", "error", "WriteSector on a healthy disk failed: %v", err)
			return
		}
		newEntry := string(scratch.Img[4*(k.Z*32+k.X) : 4*(k.Z*32+k.X)+4])
		if tp.Bool(1, 2) {
			// injected disk error at physical write j after ShortN bytes
			fDiskErr.Hit()
			s.Disk.ResetFaults()
			if tp.Bool(1, 3) {
				// a seek fails once (EIO); the position stays where it was
				fSeekFault.Hit()
				s.Disk.FailSeek = tp.Choose(3)
				if tp.Bool(1, 2) {
					// ... which, right after opening, is just behind the header
					s.Disk.Pos = 8192
				}
			} else {
				s.Disk.FailWrite = tp.Choose(4)
				s.Disk.ShortN = tp.Choose(size + 1)
				if tp.Bool(1, 2) {
					s.Disk.ShortN = tp.Choose(5)
				}
				s.Disk.WriteErr = []error{simdisk.ErrIO, simdisk.ErrNoSpc}[tp.Choose(2)]
			}
			err := s.R.WriteSector(k.X, k.Z, data)
			s.Disk.ResetFaults()
			c.Logf("WriteSector(%d,%d,%d bytes) with injected disk error -> %v", k.X, k.Z, size, err)
			img = append([]byte(nil), s.Disk.Img...)
			c.Evals++
			what := fmt.Sprintf("after a disk error (%v) during WriteSector(%d,%d) and discarding the Region", err, k.X, k.Z)
			v := simdisk.Crash(img, nil, 0, -1)
			if !checkImage(c, v, pre, s.Unknown, k, data, what) {
				return
			}
		} else {
			// crash at a tape-chosen point of the healthy write
			j := tp.Choose(len(scratch.Journal) + 1)
			torn := -1
			if j < len(scratch.Journal) && tp.Bool(2, 3) {
				torn = tp.Choose(len(scratch.Journal[j].Data) + 1)
			}
			v := simdisk.Crash(before, scratch.Journal, j, torn)
			c.Evals++
			what := fmt.Sprintf("crash after %d of %d physical writes (torn=%d) of WriteSector(%d,%d)", j, len(scratch.Journal), torn, k.X, k.Z)
			c.Logf("%s", what)
			if !checkImage(c, v, pre, s.Unknown, k, data, what) {
				return
			}
			img = v.Bytes()
		}
		// The history continues only from images in which the interrupted
		// chunk's header entry is whole (zero, the old or the new value). A torn
		// 4-byte entry may point anywhere, including into another chunk's
		// sectors; what later writes do with such an entry is outside the
		// statement, which is about the state right after re-opening.
		slot := 4 * (k.Z*32 + k.X)
		cur := string(img[slot : slot+4])
		if cur != string(before[slot:slot+4]) && cur != newEntry && cur != "\x00\x00\x00\x00" {
			pTornEntry.Hit()
			c.Fold(uint64(c.Evals))
			c.Nontrivial = true
			c.FP = c.Hash
			c.Steps = s.Ops
			return
		}
		// recover: re-open and continue; the target chunk is unknown
		pContinue.Hit()
		s.Disk = simdisk.New(img)
		if s.WriterAt {
			s.RW = simdisk.FileAt{File: s.Disk}
		} else {
			s.RW = s.Disk
		}
		s.Unknown[k] = true
		delete(s.Model, k)
		if !s.Open() {
			return
		}
	}
	for i := tp.Choose(12); i > 0; i-- {
		if !s.Step(false) {
			return
		}
	}
	c.Fold(uint64(c.Evals), s.Fingerprint())
	c.Nontrivial = true
	c.FP = c.Hash
	c.Steps = s.Ops
}

var prop = &harness.Property{
	ID: "C15",
	Scenarios: []harness.Scenario{
		{Name: "crash", Weight: 3, Run: scenarioCrash},
		{Name: "recover", Weight: 1, Run: scenarioRecover},
	},
	Real:        []string{"save/region: CreateWriter, Load, WriteSector, ReadSector, ExistSector, PadToFullSector"},
	Stub:        []string{"disk with write journal (simdisk): crash images = image before the write + any prefix of its physical writes, last write torn; injected short write with EIO/ENOSPC", "clock"},
	Rule:        "histories are sampled by seed; for EVERY WriteSector in a history EVERY prefix of its recorded physical writes is materialised, and the next write torn at every 512-byte boundary (quick: at most 64 boundaries per write, nearest both ends plus samples) plus byte offsets 1,2,3,len-1 and a random one; each image is re-opened with the real Load and every other chunk read back. evaluations = crash/error images checked; distinct = distinct hash over allocation-state sequence and crash-point count",
	Assumptions: []string{"the process stops after a prefix of its physical writes (no reordering, no lost fsync)", "nothing is asserted about the interrupted chunk itself (Anvil has no checksum)"},
}

func TestWorker(t *testing.T) { harness.Main(t, prop) }

var fSeekFault = simrt.NewFault("disk.seek.fails.once.during.a.write")
