package c09

import (
	"bytes"
	"crypto/aes"
	"io"

	"github.com/Tnze/go-mc/nbt"
	mcnet "github.com/Tnze/go-mc/net"
	"github.com/Tnze/go-mc/net/CFB8"
	pk "github.com/Tnze/go-mc/net/packet"

	"verifsim/gen"
	"verifsim/harness"
	"verifsim/kernel"
	"verifsim/oracle/cfb8"
	"verifsim/oracle/frame"
	"verifsim/oracle/nbtgen"
	"verifsim/simnet"
	"verifsim/simrt"
)

var pLinkCutInsideFrame = simrt.NewProbe("link.cut.inside.a.frame")
var pLinkCipher = simrt.NewProbe("link.cipher.installed.part-way")
var pLinkCutAtBoundary = simrt.NewProbe("link.cut.exactly.at.frame.boundary")

// scenarioLink: a peer task streams frames (or RCON packets, or NBT
// documents) over the simulated link; the link is cut (peer crash / reset) at
// a byte offset; the reader task uses the real Conn. Every unit that lies
// completely before the cut must be delivered intact and in order, the read
// that spans the cut must return a non-nil error.
func scenarioLink(c *harness.Ctx) {
	tp := c.T
	kind := tp.Choose(3) // 0 mc frames, 1 rcon, 2 nbt documents
	threshold := -1
	if kind == 0 {
		threshold = gen.Threshold(tp, false)
	}
	nUnits := 1 + tp.Choose(6)
	type unit struct {
		raw  []byte
		id   int32
		data []byte
	}
	var units []unit
	var stream []byte
	for i := 0; i < nUnits; i++ {
		var u unit
		switch kind {
		case 0:
			u.id = gen.PacketID(tp)
			u.data = gen.Fill(tp, gen.PayloadLen(tp, threshold, u.id, 400), 6, i)
			compress := threshold >= 0 && len(u.data) >= threshold && (threshold == 0 || tp.Bool(2, 3))
			u.raw = frame.Build(u.id, u.data, threshold >= 0, compress)
		case 1:
			u.id = int32(tp.U64())
			u.data = gen.Fill(tp, tp.Choose(200), 6, i)
			u.raw = rconFrame(u.id, 2, string(u.data))
		default:
			u.raw = nbtgen.Doc(nbtgen.Gen(tp, 2), "", true)
		}
		units = append(units, u)
	}
	// frames: the reader may install a cipher part-way (as login does after the
	// encryption request); everything after that frame is encrypted on the wire.
	// The peer pipelines, so encrypted bytes can arrive in the same segment as
	// the last plaintext frame.
	encFrom := -1
	var key, iv []byte
	if kind == 0 && tp.Bool(1, 3) {
		encFrom = tp.Choose(nUnits + 1)
		key, iv = tp.Bytes(16), tp.Bytes(16)
		pLinkCipher.Hit()
	}
	var enc *cfb8.Ref
	for i, u := range units {
		if i == encFrom {
			enc = cfb8.New(key, iv, false)
		}
		if enc != nil {
			stream = append(stream, enc.Apply(u.raw)...)
		} else {
			stream = append(stream, u.raw...)
		}
	}
	c.Config["cipher_from_unit"] = encFrom
	c.Config["kind"] = []string{"frames", "rcon", "nbt"}[kind]
	c.Config["threshold"] = threshold
	c.Config["units"] = nUnits
	c.Config["stream_len"] = len(stream)
	c.FoldBytes(stream)
	c.Evals = 0
	// cut offsets: all for short streams, otherwise boundaries +-1 and samples
	var cuts []int
	if len(stream) <= 48 {
		for k := 0; k <= len(stream); k++ {
			cuts = append(cuts, k)
		}
	} else {
		off := 0
		for _, u := range units {
			for _, d := range []int{-1, 0, 1, 2, 3} {
				if k := off + d; k >= 0 && k <= len(stream) {
					cuts = append(cuts, k)
				}
			}
			off += len(u.raw)
		}
		cuts = append(cuts, len(stream)-1, len(stream))
		for i := 0; i < 12; i++ {
			cuts = append(cuts, tp.Choose(len(stream)+1))
		}
	}
	for _, k := range cuts {
		whole := 0 // units entirely before the cut
		off := 0
		for _, u := range units {
			if off+len(u.raw) <= k {
				whole++
			}
			off += len(u.raw)
		}
		atBoundary := false
		off = 0
		for _, u := range units {
			off += len(u.raw)
			if off == k {
				atBoundary = true
			}
		}
		if atBoundary || k == 0 {
			pLinkCutAtBoundary.Hit()
		} else {
			pLinkCutInsideFrame.Hit()
		}
		cfg := simnet.DrawCfgFor(tp, len(stream))
		cfg.CutAt = int64(k)
		cfg.CutErr = []error{io.EOF, simnet.ErrReset, io.ErrUnexpectedEOF}[tp.Choose(3)]
		got := 0
		var firstErr error
		var mismatch string
		out, w := c.World(func(w *kernel.World) {
			link := simnet.Pipe(w, "l", cfg, simnet.LinkCfg{CutAt: -1, StallAt: -1})
			w.GoDaemon("peer", func() {
				off := 0
				for _, u := range units {
					if _, err := link.A.Write(stream[off : off+len(u.raw)]); err != nil {
						return
					}
					off += len(u.raw)
				}
				link.A.Close()
			})
			w.Go("reader", func() {
				switch kind {
				case 0:
					conn := mcnet.WrapConn(link.B)
					conn.SetThreshold(threshold)
					for i := 0; i <= len(units); i++ {
						if i == encFrom {
							blk, _ := aes.NewCipher(key)
							conn.SetCipher(CFB8.NewCFB8Encrypt(blk, iv), CFB8.NewCFB8Decrypt(blk, iv))
						}
						var p pk.Packet
						if err := conn.ReadPacket(&p); err != nil {
							firstErr = err
							return
						}
						if i < len(units) && (p.ID != units[i].id || !bytes.Equal(p.Data, units[i].data)) {
							mismatch = "packet content"
							return
						}
						got++
					}
				case 1:
					rc := &mcnet.RCONConn{Conn: link.B}
					for i := 0; i <= len(units); i++ {
						id, typ, payload, err := rc.ReadPacket()
						if err != nil {
							firstErr = err
							return
						}
						if i < len(units) && (id != units[i].id || typ != 2 || payload != string(units[i].data)) {
							mismatch = "rcon packet content"
							return
						}
						got++
					}
				default:
					dec := nbt.NewDecoder(link.B)
					dec.NetworkFormat(true)
					for i := 0; i <= len(units); i++ {
						var v nbt.RawMessage
						if _, err := dec.Decode(&v); err != nil {
							firstErr = err
							return
						}
						if i < len(units) && !bytes.Equal(v.Data, units[i].raw[1:]) {
							mismatch = "nbt document bytes"
							return
						}
						got++
					}
				}
			})
		})
		c.Evals++
		if c.Infra != "" {
			return
		}
		c.TaskPanics(w, "link")
		if c.Failed() {
			return
		}
		kinds := c.Config["kind"].(string)
		if out != kernel.OutDone {
			c.Fail("link.hang", kinds, "reader", "reader neither finished nor failed after the link was cut at %d/%d: %v %v", k, len(stream), out, w.DeadlockAt)
			return
		}
		if mismatch != "" {
			c.Fail("link.corrupt", kinds, "content", "unit %d read from a link cut at offset %d/%d has wrong %s", got, k, len(stream), mismatch)
			return
		}
		if got > whole {
			c.Fail("swallowed-read-error", kinds, "link-cut", "link cut at offset %d of %d: only %d units lie completely before the cut, but %d reads reported success", k, len(stream), whole, got)
			return
		}
		if got < whole {
			c.Fail("link.lost", kinds, "early-error", "link cut at offset %d of %d: %d complete units were sent before the cut but only %d were delivered before error %v", k, len(stream), whole, got, firstErr)
			return
		}
		if firstErr == nil {
			c.Fail("swallowed-read-error", kinds, "no-error", "link cut at %d/%d: reader finished without any error", k, len(stream))
			return
		}
	}
}
