package c09

import (
	"bufio"
	"fmt"
	"io"
	"reflect"
	"testing"

	"verifsim/harness"
	"verifsim/simio"
	"verifsim/simrt"
	"verifsim/tape"
)

var (
	fEOF           = simrt.NewFault("reader.eof.at.offset")
	fUEOF          = simrt.NewFault("reader.unexpected-eof.at.offset")
	fInjected      = simrt.NewFault("reader.injected.error.at.offset")
	fWithData      = simrt.NewFault("reader.error.with.last.fragment")
	fFrag          = simrt.NewFault("reader.fragmented.delivery")
	fOneByte       = simrt.NewFault("reader.one.byte.at.a.time")
	fWSticky       = simrt.NewFault("writer.error.sticky")
	fWTransient    = simrt.NewFault("writer.error.transient")
	pExhaustive    = simrt.NewProbe("fragmentation.all.compositions")
	pDouble        = simrt.NewProbe("fragmentation.all.single+double.cuts")
	pSampled       = simrt.NewProbe("fragmentation.sampled")
	pByteReader    = simrt.NewProbe("reader.with.io.ByteReader")
	pBaseErr       = simrt.NewProbe("case.skipped.baseline.error")
	pEOFExact      = simrt.NewProbe("stream.ends.exactly.after.document")
	pWithDataAtEnd = simrt.NewProbe("final.fragment.with.EOF.at.document.end.accepted")
)

type outcome struct {
	val any
	n   int64
	err error
	pos int
}

func execRead(rc *readCase, fr *simio.FragReader, byteReader bool) (o outcome, panicked any) {
	defer func() {
		if r := recover(); r != nil {
			panicked = r
		}
	}()
	var r io.Reader = fr
	if byteReader {
		r = &simio.ByteFragReader{FragReader: *fr}
		o.val, o.n, o.err = rc.dec(r)
		o.pos = r.(*simio.ByteFragReader).Pos
		return
	}
	o.val, o.n, o.err = rc.dec(r)
	o.pos = fr.Pos
	return
}

func compositions(n int) [][]int {
	// all subsets of cut positions 1..n-1
	var out [][]int
	for mask := 0; mask < 1<<(n-1); mask++ {
		var cuts []int
		for i := 0; i < n-1; i++ {
			if mask&(1<<i) != 0 {
				cuts = append(cuts, i+1)
			}
		}
		out = append(out, cuts)
	}
	return out
}

func scenarioRead(op string) func(c *harness.Ctx) {
	return func(c *harness.Ctx) {
		tp := c.T
		rc := genReadCase(tp, op)
		c.Config["op"] = op
		c.Config["desc"] = rc.desc
		c.Config["doc_len"] = len(rc.doc)
		if len(rc.doc) <= 64 {
			c.Config["doc_hex"] = fmt.Sprintf("%x", rc.doc)
		}
		trailer := tp.Bytes(12)
		trailer[0] |= 0x01
		stream := append(append([]byte(nil), rc.doc...), trailer...)
		if rc.noTrunc {
			stream = rc.doc
		}
		c.FoldBytes(rc.doc)
		c.Evals = 0
		useBR := tp.Bool(1, 2)
		if useBR {
			pByteReader.Hit()
		}

		// baseline: contiguous delivery
		base, pan := execRead(rc, &simio.FragReader{Data: stream, FailAt: -1}, useBR)
		c.Evals++
		if pan != nil {
			c.Fail("panic", op, "baseline", "%s panicked on a valid document delivered contiguously: %v", rc.desc, pan)
			return
		}
		if base.err != nil {
			pBaseErr.Hit()
			c.Logf("baseline error (case skipped): %v", base.err)
			return
		}
		c.Nontrivial = true
		c.FP = harness.HashString(op) ^ uint64(len(rc.doc))*0x9E3779B97F4A7C15 ^ c.Hash

		check := func(kind string, fr *simio.FragReader, br bool) bool {
			o, pan := execRead(rc, fr, br)
			c.Evals++
			if pan != nil {
				c.Fail("panic", op, kind, "%s panicked under %s: %v", rc.desc, kind, pan)
				return false
			}
			if o.err != nil {
				c.Fail("fragmentation", op, "error", "%s: contiguous read succeeds but %s delivery (cuts=%v onebyte=%v bytereader=%v) fails: %v", rc.desc, kind, fr.Cuts, fr.OneByte, br, o.err)
				return false
			}
			if !reflect.DeepEqual(o.val, base.val) {
				c.Fail("fragmentation", op, "value", "%s: value differs under %s delivery (cuts=%v onebyte=%v bytereader=%v):\n contiguous: %v\n fragmented: %v", rc.desc, kind, fr.Cuts, fr.OneByte, br, abbreviate(base.val), abbreviate(o.val))
				return false
			}
			if o.n != base.n {
				c.Fail("fragmentation", op, "count", "%s: reported byte count %d under %s delivery (cuts=%v onebyte=%v), %d when contiguous", rc.desc, o.n, kind, fr.Cuts, fr.OneByte, base.n)
				return false
			}
			if o.pos != base.pos {
				c.Fail("fragmentation", op, "residual", "%s: stream position after the operation is %d under %s delivery (cuts=%v onebyte=%v), %d when contiguous", rc.desc, o.pos, kind, fr.Cuts, fr.OneByte, base.pos)
				return false
			}
			return true
		}

		// ---- fragmentation schedules
		n := len(rc.doc)
		fOneByte.Hit()
		if !check("one-byte", &simio.FragReader{Data: stream, OneByte: true, FailAt: -1}, useBR) {
			return
		}
		if !check("one-byte", &simio.FragReader{Data: stream, OneByte: true, FailAt: -1}, !useBR) {
			return
		}
		switch {
		case n >= 2 && n <= 11:
			pExhaustive.Hit()
			for _, cuts := range compositions(n) {
				fFrag.Hit()
				if !check("exhaustive", &simio.FragReader{Data: stream, Cuts: cuts, FailAt: -1}, useBR) {
					return
				}
			}
		case n >= 2 && n <= 64:
			pDouble.Hit()
			for i := 1; i < n; i++ {
				fFrag.Hit()
				if !check("single-cut", &simio.FragReader{Data: stream, Cuts: []int{i}, FailAt: -1}, useBR) {
					return
				}
				for j := i + 1; j < n; j++ {
					if c.Tier != "thorough" && (i*31+j*17)%4 != 0 {
						continue
					}
					if !check("double-cut", &simio.FragReader{Data: stream, Cuts: []int{i, j}, FailAt: -1}, (i+j)%2 == 0) {
						return
					}
				}
			}
		case n > 64:
			pSampled.Hit()
			// (long documents: a bounded number of drawn cut positions -- never
			// "skip with probability", which a zeroed tape turns into "check all")
			var cutPick map[int]bool
			if n > 400 {
				cutPick = map[int]bool{}
				cnt := 200
				if n > 200000 {
					cnt = 20
				}
				for j := 0; j < cnt; j++ {
					cutPick[1+tp.Choose(n-1)] = true
				}
			}
			for i := 1; i < n; i++ {
				if cutPick != nil && !cutPick[i] {
					continue
				}
				fFrag.Hit()
				if !check("single-cut", &simio.FragReader{Data: stream, Cuts: []int{i}, FailAt: -1}, i%2 == 0) {
					return
				}
			}
			for k := 0; k < 12; k++ {
				var cuts []int
				pos := 0
				maxStep := 24
				if n > 200000 {
					maxStep = n / 40 // keep the number of draws (and the tape) small
				}
				for pos < n {
					pos += 1 + tp.Choose(1+tp.Choose(maxStep))
					cuts = append(cuts, pos)
				}
				fFrag.Hit()
				if !check("random", &simio.FragReader{Data: stream, Cuts: cuts, FailAt: -1}, k%2 == 0) {
					return
				}
			}
		}

		// ---- the source is a *bufio.Reader (what callers commonly pass): same
		// value, count and logical position; and the value must still be intact
		// after the reader has moved on (no aliasing of the reader's buffer)
		if !rc.noTrunc {
			for _, size := range []int{16, 16 + tp.Choose(100), 4096} {
				long := append(append([]byte(nil), stream...), tp.Bytes(2*size+8)...)
				fr := &simio.FragReader{Data: long, FailAt: -1, OneByte: tp.Bool(1, 3)}
				if !fr.OneByte {
					for pos := 0; pos < len(long); {
						pos += 1 + tp.Choose(1+tp.Choose(2*size))
						fr.Cuts = append(fr.Cuts, pos)
					}
				}
				br := bufio.NewReaderSize(fr, size)
				pBufio.Hit()
				var o outcome
				pan := func() (p any) {
					defer func() { p = recover() }()
					o.val, o.n, o.err = rc.dec(br)
					return nil
				}()
				c.Evals++
				if pan != nil {
					c.Fail("panic", op, "bufio", "%s panicked reading from a bufio.Reader of size %d: %v", rc.desc, size, pan)
					return
				}
				o.pos = fr.Pos - br.Buffered()
				if o.err != nil || !reflect.DeepEqual(o.val, base.val) || o.n != base.n || o.pos != base.pos {
					c.Fail("fragmentation", op, "bufio", "%s from a bufio.Reader (size %d, fragmented source): err=%v value-equal=%v n=%d (contiguous %d) position=%d (contiguous %d)", rc.desc, size, o.err, reflect.DeepEqual(o.val, base.val), o.n, base.n, o.pos, base.pos)
					return
				}
				io.Copy(io.Discard, br)
				if !reflect.DeepEqual(o.val, base.val) {
					c.Fail("fragmentation", op, "bufio-late-corruption", "%s from a bufio.Reader (size %d): the returned value changed after the reader moved on (it aliases the reader's buffer)", rc.desc, size)
					return
				}
			}
		}

		// ---- stream ends exactly after the document: must succeed
		{
			pEOFExact.Hit()
			o, pan := execRead(rc, &simio.FragReader{Data: rc.doc, FailAt: -1}, useBR)
			c.Evals++
			if pan != nil {
				c.Fail("panic", op, "eof-after-document", "%s panicked when the stream ends right after the document: %v", rc.desc, pan)
				return
			}
			if o.err != nil || !reflect.DeepEqual(o.val, base.val) || o.n != base.n {
				c.Fail("fragmentation", op, "eof-after-document", "%s: a stream that ends exactly after the document gives err=%v n=%d value-equal=%v (contiguous with trailer: nil error, n=%d)", rc.desc, o.err, o.n, reflect.DeepEqual(o.val, base.val), base.n)
				return
			}
			// (n>0, io.EOF) together with the last bytes of the complete document is a
			// legal delivery ("callers should always process the n > 0 bytes returned
			// before considering the error"): the result must equal the contiguous one
			o2, pan2 := execRead(rc, &simio.FragReader{Data: rc.doc, FailAt: len(rc.doc), FailErr: io.EOF, FailWithData: true}, useBR)
			c.Evals++
			if pan2 == nil && o2.err == nil {
				pWithDataAtEnd.Hit()
			}
			if pan2 != nil || o2.err != nil || !reflect.DeepEqual(o2.val, base.val) || o2.n != base.n {
				c.Fail("fragmentation", op, "last-bytes-with-eof", "%s: the complete document delivered with io.EOF accompanying its last bytes gives err=%v panic=%v n=%d (contiguous: nil, n=%d)", rc.desc, o2.err, pan2, o2.n, base.n)
				return
			}
		}
		if rc.noTrunc {
			return
		}

		// ---- failure at every offset k < len(doc): never success
		errs := []error{io.EOF, io.ErrUnexpectedEOF, simio.ErrInjected}
		faults := []simrt.Counter{fEOF, fUEOF, fInjected}
		mega := n > 200000
		var megaPick map[int]bool
		if mega {
			pMega.Hit()
			megaPick = map[int]bool{n - 1: true, n - 2: true, n - 3: true, n / 2: true}
			for i := 0; i < 24; i++ {
				megaPick[tp.Choose(n)] = true
			}
			for b := 1 << 16; b < n; b <<= 1 {
				megaPick[b], megaPick[b-1], megaPick[b+1] = true, true, true
			}
		}
		var offPick map[int]bool
		if !mega && n > 600 {
			offPick = map[int]bool{}
			for j := 0; j < 300; j++ {
				offPick[tp.Choose(n)] = true
			}
		}
		for k := 0; k < n; k++ {
			if mega && !megaPick[k] {
				continue
			}
			// long documents: sampled offsets, but always the ones next to
			// multiples of typical buffer/batch sizes and the very last bytes
			structured := k%256 <= 1 || k%256 == 255 || k%4096 < 24 || k >= n-3
			if offPick != nil && !structured && !offPick[k] {
				continue
			}
			nVariants := 2
			if c.Tier == "thorough" && !mega && n <= 30000 {
				nVariants = 12 // every error kind x with/without data x contiguous/one-byte
			}
			for variant := 0; variant < nVariants; variant++ {
				e := (k + variant*2 + tp.Choose(3)) % 3
				withData := variant == 1 && k > 0
				oneByte := tp.Bool(1, 3)
				if mega || n > 30000 {
					oneByte = false // a megabyte one byte at a time costs a second per execution
				}
				if nVariants == 12 {
					e = variant % 3
					withData = (variant/3)%2 == 1 && k > 0
					oneByte = variant/6 == 1
				}
				fr := &simio.FragReader{Data: stream, FailAt: k, FailErr: errs[e], FailWithData: withData, OneByte: oneByte}
				faults[e].Hit()
				if withData {
					fWithData.Hit()
				}
				br := (k+variant)%2 == 0
				o, pan := execRead(rc, fr, br)
				c.Evals++
				if pan != nil {
					c.Fail("panic", op, "reader-failure", "%s panicked when the reader failed at offset %d/%d with %v: %v", rc.desc, k, n, errs[e], pan)
					return
				}
				if o.err == nil {
					c.Fail("swallowed-read-error", op, errName(errs[e]), "%s returned success although the stream failed at offset %d of a %d-byte document (error %v, with-last-fragment=%v, one-byte=%v, bytereader=%v); result %v", rc.desc, k, n, errs[e], withData, oneByte, br, abbreviate(o.val))
					return
				}
			}
		}
	}
}

func errName(e error) string {
	switch e {
	case io.EOF:
		return "EOF"
	case io.ErrUnexpectedEOF:
		return "ErrUnexpectedEOF"
	}
	return "injected"
}

func abbreviate(v any) string {
	s := fmt.Sprintf("%v", v)
	if len(s) > 300 {
		return s[:300] + "…"
	}
	return s
}

func execWrite(wc *writeCase, fw *simio.FaultWriter) (n int64, err error, panicked any) {
	defer func() {
		if r := recover(); r != nil {
			panicked = r
		}
	}()
	n, err = wc.enc(fw)
	return
}

func scenarioWrite(op string) func(c *harness.Ctx) {
	return func(c *harness.Ctx) {
		tp := c.T
		wc := genWriteCase(tp, op)
		c.Config["op"] = op
		c.Evals = 0
		if wc == nil {
			pBaseErr.Hit()
			c.Evals = 1
			return
		}
		base := &simio.FaultWriter{FailAt: -1}
		_, err, pan := execWrite(wc, base)
		c.Evals++
		if pan != nil {
			c.Fail("panic", op, "baseline", "%s panicked with a healthy writer: %v", op, pan)
			return
		}
		if err != nil || len(base.Buf) == 0 {
			pBaseErr.Hit()
			return
		}
		W := len(base.Buf)
		c.Config["bytes_written"] = W
		c.Fold(uint64(W))
		c.Nontrivial = true
		c.FP = harness.HashString(op) ^ uint64(W)*0x9E3779B97F4A7C15 ^ c.T.U64()
		var wPick map[int]bool
		if W > 600 {
			wPick = map[int]bool{0: true, W - 1: true}
			for j := 0; j < 300; j++ {
				wPick[tp.Choose(W)] = true
			}
		}
		for k := 0; k < W; k++ {
			if wPick != nil && !wPick[k] {
				continue
			}
			for _, sticky := range []bool{true, false} {
				fw := &simio.FaultWriter{FailAt: k, Sticky: sticky, Err: simio.ErrInjected}
				if sticky {
					fWSticky.Hit()
				} else {
					fWTransient.Hit()
				}
				_, err, pan := execWrite(wc, fw)
				c.Evals++
				if pan != nil {
					c.Fail("panic", op, "writer-failure", "%s panicked when the writer failed after %d of %d bytes: %v", op, k, W, pan)
					return
				}
				if !fw.Failed {
					// the operation wrote fewer bytes this time (map order cannot change W) - not expected
					c.Fail("writer", op, "short-output", "%s wrote only %d bytes this time, %d in the baseline run", op, len(fw.Buf), W)
					return
				}
				if err == nil {
					mode := "sticky"
					if !sticky {
						mode = "transient"
					}
					c.Fail("swallowed-write-error", op, mode, "%s returned nil although the writer failed after accepting %d of %d bytes (%s failure)", op, k, W, mode)
					return
				}
			}
			// the same failure with a destination that also implements io.ByteWriter
			// and io.StringWriter (a type switch may route single bytes and strings
			// through them)
			{
				cw := &simio.CapWriter{FaultWriter: &simio.FaultWriter{FailAt: k, Sticky: tp.Bool(1, 2), Err: simio.ErrInjected}}
				fWCapable.Hit()
				var err error
				pan := func() (p any) {
					defer func() { p = recover() }()
					_, err = wc.enc(cw)
					return nil
				}()
				c.Evals++
				if cw.ByteCalls+cw.StringCalls > 0 {
					pCapUsed.Hit()
				}
				if pan != nil {
					c.Fail("panic", op, "writer-failure", "%s panicked when a writer with WriteByte/WriteString failed after %d of %d bytes: %v", op, k, W, pan)
					return
				}
				if cw.Failed && err == nil {
					c.Fail("swallowed-write-error", op, "bytewriter", "%s returned nil although its destination (an io.ByteWriter/io.StringWriter, sticky=%v) failed after accepting %d of %d bytes", op, cw.Sticky, k, W)
					return
				}
			}
		}
	}
}

var prop = &harness.Property{
	ID: "C09",
	Real: []string{"net/packet.Packet.Pack/UnPack", "net.Conn.ReadPacket/WritePacket", "nbt.Decoder.Decode (any, map, struct, typed slices, RawMessage, StringifiedMessage, dynbt.Value)", "nbt.Encoder.Encode",
		"net/packet field ReadFrom/WriteTo (Boolean..Tuple)", "chat/sign.Signature", "net.RCONConn.ReadPacket/WritePacket"},
	Stub:        []string{"io.Reader delivering tape-chosen fragments and failing at a chosen offset (simio.FragReader)", "io.Writer failing after k accepted bytes (simio.FaultWriter)", "simulated link with cut (link scenario)"},
	Rule:        "a run is one (operation, generated document) pair executed under: contiguous delivery (baseline), one-byte delivery, all compositions (<=11 bytes) / all single and sampled double cuts (<=64) / single cuts + random schedules (longer), stream ending exactly after the document, and a reader failure (EOF, ErrUnexpectedEOF, injected; alone or with the last fragment) at EVERY offset of the document; writer operations fail at EVERY offset in sticky and transient style. evaluations counts operation executions; distinct = distinct (operation, document) pairs whose baseline succeeded",
	Assumptions: []string{"readers never return (0, nil) for a non-empty buffer", "writers never return n < len(p) with a nil error", "a baseline that fails on contiguous delivery is skipped (that is not this property)"},
}

func init() {
	for _, op := range readOps {
		prop.Scenarios = append(prop.Scenarios, harness.Scenario{Name: "read:" + op, Weight: 3, Run: scenarioRead(op)})
	}
	for _, op := range writeOps {
		prop.Scenarios = append(prop.Scenarios, harness.Scenario{Name: "write:" + op, Weight: 3, Run: scenarioWrite(op)})
	}
}

func init() {
	prop.Scenarios = append(prop.Scenarios, harness.Scenario{Name: "link", Weight: 12, Run: scenarioLink})
}

func TestWorker(t *testing.T) { harness.Main(t, prop) }

var _ = tape.New

var pBufio = simrt.NewProbe("reader.is.a.bufio.Reader")

var pMega = simrt.NewProbe("document.larger.than.1MiB")

var fWCapable = simrt.NewFault("writer.with.WriteByte/WriteString.fails")
var pCapUsed = simrt.NewProbe("write.op.used.the.destination's.WriteByte/WriteString")
