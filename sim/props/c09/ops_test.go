package c09

import (
	"bytes"
	"compress/zlib"
	"crypto/aes"
	"encoding/binary"
	"github.com/Tnze/go-mc/chat"
	"github.com/Tnze/go-mc/net/CFB8"
	"io"
	"reflect"
	"verifsim/simrt"

	"github.com/Tnze/go-mc/chat/sign"
	"github.com/Tnze/go-mc/nbt"
	"github.com/Tnze/go-mc/nbt/dynbt"
	mcnet "github.com/Tnze/go-mc/net"
	pk "github.com/Tnze/go-mc/net/packet"

	"verifsim/gen"
	"verifsim/oracle/frame"
	"verifsim/oracle/nbtgen"
	"verifsim/simio"
	"verifsim/tape"
)

// decodeFn runs one stream-reading operation on r into a fresh destination.
// n is -1 when the API reports no byte count.
type decodeFn func(r io.Reader) (val any, n int64, err error)

type readCase struct {
	op      string
	doc     []byte
	dec     decodeFn
	noTrunc bool // every prefix of the document is itself valid (PluginMessageData)
	desc    string
}

// encodeFn runs one stream-writing operation on w.
type encodeFn func(w io.Writer) (n int64, err error)

type writeCase struct {
	op   string
	enc  encodeFn
	desc string
}

// ---------------------------------------------------------------- NBT targets

type Inner struct {
	A int32   `nbt:"a"`
	S string  `nbt:"s"`
	L []int64 `nbt:"l"`
}

type Rec struct {
	B    int8             `nbt:"b"`
	Sh   int16            `nbt:"sh"`
	I    int32            `nbt:"i"`
	L    int64            `nbt:"l"`
	F    float32          `nbt:"f"`
	D    float64          `nbt:"d"`
	S    string           `nbt:"s"`
	BA   []byte           `nbt:"ba"`
	IA   []int32          `nbt:"ia"`
	LA   []int64          `nbt:"la"`
	Strs []string         `nbt:"strs"`
	In   Inner            `nbt:"in"`
	Ins  []Inner          `nbt:"ins"`
	M    map[string]int32 `nbt:"m"`
	Any  any              `nbt:"any"`
	Raw  nbt.RawMessage   `nbt:"raw"`
	Bool bool             `nbt:"bool"`
}

type Mixed struct {
	D    dynbt.Value            `nbt:"d"`
	R    nbt.RawMessage         `nbt:"r"`
	S    nbt.StringifiedMessage `nbt:"s"`
	Tail int64                  `nbt:"tail"`
}

func genInner(tp *tape.Tape) *nbtgen.Node {
	n := &nbtgen.Node{Tag: nbtgen.Compound}
	add := func(k string, v *nbtgen.Node) { n.Keys = append(n.Keys, k); n.Vals = append(n.Vals, v) }
	if tp.Bool(2, 3) {
		add("a", nbtgen.GenTag(tp, nbtgen.Int, 0))
	}
	if tp.Bool(2, 3) {
		add("s", nbtgen.GenTag(tp, nbtgen.String, 0))
	}
	if tp.Bool(1, 2) {
		add("l", nbtgen.GenTag(tp, nbtgen.LongArray, 0))
	}
	return n
}

// genRec generates a compound matching Rec; with extra, unknown fields of
// arbitrary shape are mixed in (the decoder must skip them: rawRead path).
func genRec(tp *tape.Tape, extra bool) *nbtgen.Node {
	n := &nbtgen.Node{Tag: nbtgen.Compound}
	add := func(k string, v *nbtgen.Node) { n.Keys = append(n.Keys, k); n.Vals = append(n.Vals, v) }
	unk := 0
	maybeExtra := func() {
		if extra && tp.Bool(1, 3) {
			unk++
			add("unknown"+string(rune('A'+unk)), nbtgen.Gen(tp, 2))
		}
	}
	type fd struct {
		k   string
		tag byte
	}
	for _, f := range []fd{{"b", nbtgen.Byte}, {"sh", nbtgen.Short}, {"i", nbtgen.Int}, {"l", nbtgen.Long}, {"f", nbtgen.Float},
		{"d", nbtgen.Double}, {"s", nbtgen.String}, {"ba", nbtgen.ByteArray}, {"ia", nbtgen.IntArray}, {"la", nbtgen.LongArray}, {"bool", nbtgen.Byte}} {
		maybeExtra()
		if tp.Bool(1, 2) {
			add(f.k, nbtgen.GenTag(tp, f.tag, 0))
		}
	}
	maybeExtra()
	if tp.Bool(1, 2) {
		l := &nbtgen.Node{Tag: nbtgen.List, ListType: nbtgen.String}
		for i := tp.Choose(4); i > 0; i-- {
			l.List = append(l.List, nbtgen.GenTag(tp, nbtgen.String, 0))
		}
		add("strs", l)
	}
	if tp.Bool(1, 2) {
		add("in", genInner(tp))
	}
	maybeExtra()
	if tp.Bool(1, 2) {
		l := &nbtgen.Node{Tag: nbtgen.List, ListType: nbtgen.Compound}
		for i := tp.Choose(3); i > 0; i-- {
			l.List = append(l.List, genInner(tp))
		}
		add("ins", l)
	}
	if tp.Bool(1, 3) {
		m := &nbtgen.Node{Tag: nbtgen.Compound}
		for i := tp.Choose(3); i > 0; i-- {
			m.Keys = append(m.Keys, "mk"+string(rune('a'+i)))
			m.Vals = append(m.Vals, nbtgen.GenTag(tp, nbtgen.Int, 0))
		}
		add("m", m)
	}
	if tp.Bool(1, 3) {
		add("any", nbtgen.Gen(tp, 1))
	}
	if tp.Bool(1, 3) {
		add("raw", nbtgen.Gen(tp, 1))
	}
	maybeExtra()
	return n
}

func nbtDecoder(r io.Reader, network, disallow bool) *nbt.Decoder {
	d := nbt.NewDecoder(r)
	d.NetworkFormat(network)
	if disallow {
		d.DisallowUnknownFields()
	}
	return d
}

// ---------------------------------------------------------------- read cases

var readOps = []string{
	"packet.unpack.plain", "packet.unpack.zlib", "conn.readpacket",
	"nbt.any", "nbt.map", "nbt.struct", "nbt.struct.unknown", "nbt.struct.mixed", "nbt.slice", "nbt.raw", "nbt.snbt", "nbt.dynbt",
	"field.ary.fixedlen", "field.optiondecoder",
	"field.fixed", "field.var", "field.string", "field.bytes", "field.bitset", "field.fixedbitset", "field.plugin",
	"field.nbt", "field.option", "field.opt", "field.ary", "field.tuple", "field.signature", "rcon.readpacket",
	"field.chat", "field.packedsignature",
}

func rconFrame(id, typ int32, payload string) []byte {
	b := binary.LittleEndian.AppendUint32(nil, uint32(10+len(payload)))
	b = binary.LittleEndian.AppendUint32(b, uint32(id))
	b = binary.LittleEndian.AppendUint32(b, uint32(typ))
	b = append(b, payload...)
	return append(b, 0, 0)
}

type pktResult struct {
	ID   int32
	Data []byte
}

func genReadCase(tp *tape.Tape, op string) *readCase {
	rc := &readCase{op: op}
	// payloads above 1 MiB only where the array is (or may be) the whole document
	nbtgen.Mega = op == "nbt.dynbt" || op == "nbt.any" || op == "nbt.raw" || op == "nbt.slice"
	defer func() { nbtgen.Mega = false }()
	network := tp.Bool(1, 2)
	name := ""
	if !network && tp.Bool(1, 2) {
		name = "root"
	}
	switch op {
	case "packet.unpack.plain":
		id := gen.PacketID(tp)
		data := gen.Fill(tp, unpackLen(tp), 3, 0)
		rc.doc = frame.Build(id, data, false, false)
		rc.dec = func(r io.Reader) (any, int64, error) {
			var p pk.Packet
			err := p.UnPack(r, -1)
			return pktResult{p.ID, p.Data}, -1, err
		}
	case "packet.unpack.zlib", "conn.readpacket":
		id := gen.PacketID(tp)
		th := []int{0, 1, 16, 64}[tp.Choose(4)]
		data := gen.Fill(tp, unpackLen(tp), 3, 0)
		compress := len(data) >= th && tp.Bool(2, 3)
		if th == 0 {
			compress = true
		}
		rc.doc = frame.Build(id, data, true, compress)
		if op == "conn.readpacket" {
			rc.dec = func(r io.Reader) (any, int64, error) {
				c := &mcnet.Conn{Reader: r}
				c.SetThreshold(th)
				var p pk.Packet
				err := c.ReadPacket(&p)
				return pktResult{p.ID, p.Data}, -1, err
			}
		} else {
			rc.dec = func(r io.Reader) (any, int64, error) {
				var p pk.Packet
				err := p.UnPack(r, th)
				return pktResult{p.ID, p.Data}, -1, err
			}
		}
	case "nbt.any":
		rc.doc = nbtgen.Doc(nbtgen.Gen(tp, 3), name, network)
		rc.dec = func(r io.Reader) (any, int64, error) {
			var v any
			_, err := nbtDecoder(r, network, false).Decode(&v)
			return v, -1, err
		}
	case "nbt.map":
		rc.doc = nbtgen.Doc(nbtgen.GenTag(tp, nbtgen.Compound, 3), name, network)
		rc.dec = func(r io.Reader) (any, int64, error) {
			var v map[string]any
			_, err := nbtDecoder(r, network, false).Decode(&v)
			return v, -1, err
		}
	case "nbt.struct":
		rc.doc = nbtgen.Doc(genRec(tp, false), name, network)
		rc.dec = func(r io.Reader) (any, int64, error) {
			var v Rec
			_, err := nbtDecoder(r, network, true).Decode(&v)
			return v, -1, err
		}
	case "nbt.struct.unknown":
		rc.doc = nbtgen.Doc(genRec(tp, true), name, network)
		rc.dec = func(r io.Reader) (any, int64, error) {
			var v Rec
			_, err := nbtDecoder(r, network, false).Decode(&v)
			return v, -1, err
		}
	case "nbt.struct.mixed":
		// Unmarshaler-typed fields inside a reflected struct: the decoder hands its
		// own reader to RawMessage / StringifiedMessage / dynbt.Value mid-document
		n := &nbtgen.Node{Tag: nbtgen.Compound}
		for _, k := range []string{"d", "r", "s", "tail"} {
			if tp.Bool(3, 4) {
				n.Keys = append(n.Keys, k)
				if k == "tail" {
					n.Vals = append(n.Vals, nbtgen.GenTag(tp, nbtgen.Long, 0))
				} else {
					n.Vals = append(n.Vals, nbtgen.Gen(tp, 2))
				}
			}
		}
		rc.doc = nbtgen.Doc(n, name, network)
		rc.dec = func(r io.Reader) (any, int64, error) {
			var v Mixed
			_, err := nbtDecoder(r, network, false).Decode(&v)
			if err != nil {
				return nil, -1, err
			}
			var out bytes.Buffer
			merr := nbt.NewEncoder(&out).Encode(&v.D, "")
			return []any{out.Bytes(), merr == nil, v.R, v.S, v.Tail}, -1, nil
		}
	case "field.ary.fixedlen":
		kind := tp.Choose(3)
		cnt := tp.Choose(5)
		switch kind {
		case 0:
			rc.doc = []byte{byte(cnt)}
		case 1:
			rc.doc = []byte{0, byte(cnt)}
		default:
			rc.doc = []byte{0, 0, 0, byte(cnt)}
		}
		rc.doc = append(rc.doc, gen.Fill(tp, 8*cnt, 9, 12)...)
		rc.desc = []string{"Ary[Byte] of Long", "Ary[Short] of Long", "Ary[Int] of Long"}[kind]
		rc.dec = func(r io.Reader) (any, int64, error) {
			var v []pk.Long
			var n int64
			var err error
			switch kind {
			case 0:
				n, err = pk.Ary[pk.Byte]{Ary: &v}.ReadFrom(r)
			case 1:
				n, err = pk.Ary[pk.Short]{Ary: &v}.ReadFrom(r)
			default:
				n, err = pk.Ary[pk.Int]{Ary: &v}.ReadFrom(r)
			}
			return v, n, err
		}
	case "field.optiondecoder":
		has := tp.Bool(2, 3)
		if has {
			rc.doc = append([]byte{1}, gen.Fill(tp, 16, 9, 13)...)
		} else {
			rc.doc = []byte{0}
		}
		rc.dec = func(r io.Reader) (any, int64, error) {
			var v pk.OptionDecoder[pk.UUID, *pk.UUID]
			n, err := v.ReadFrom(r)
			return v, n, err
		}
	case "nbt.slice":
		switch tp.Choose(9) {
		case 5:
			rc.doc = nbtgen.Doc(nbtgen.GenTag(tp, nbtgen.LongArray, 0), name, network)
			rc.dec = func(r io.Reader) (any, int64, error) {
				var v []uint64
				_, err := nbtDecoder(r, network, false).Decode(&v)
				return v, -1, err
			}
		case 6:
			rc.doc = nbtgen.Doc(nbtgen.GenTag(tp, nbtgen.IntArray, 0), name, network)
			rc.dec = func(r io.Reader) (any, int64, error) {
				var v []int
				_, err := nbtDecoder(r, network, false).Decode(&v)
				return v, -1, err
			}
		case 7:
			rc.doc = nbtgen.Doc(nbtgen.GenTag(tp, nbtgen.ByteArray, 0), name, network)
			rc.dec = func(r io.Reader) (any, int64, error) {
				var v []int8
				_, err := nbtDecoder(r, network, false).Decode(&v)
				return v, -1, err
			}
		case 8:
			l := &nbtgen.Node{Tag: nbtgen.List, ListType: nbtgen.Long}
			for i := tp.Choose(6); i > 0; i-- {
				l.List = append(l.List, nbtgen.GenTag(tp, nbtgen.Long, 0))
			}
			rc.doc = nbtgen.Doc(l, name, network)
			rc.dec = func(r io.Reader) (any, int64, error) {
				var v []uint64
				_, err := nbtDecoder(r, network, false).Decode(&v)
				return v, -1, err
			}
		case 0:
			rc.doc = nbtgen.Doc(nbtgen.GenTag(tp, nbtgen.IntArray, 0), name, network)
			rc.dec = func(r io.Reader) (any, int64, error) {
				var v []int32
				_, err := nbtDecoder(r, network, false).Decode(&v)
				return v, -1, err
			}
		case 1:
			rc.doc = nbtgen.Doc(nbtgen.GenTag(tp, nbtgen.LongArray, 0), name, network)
			rc.dec = func(r io.Reader) (any, int64, error) {
				var v []int64
				_, err := nbtDecoder(r, network, false).Decode(&v)
				return v, -1, err
			}
		case 2:
			rc.doc = nbtgen.Doc(nbtgen.GenTag(tp, nbtgen.ByteArray, 0), name, network)
			rc.dec = func(r io.Reader) (any, int64, error) {
				var v []byte
				_, err := nbtDecoder(r, network, false).Decode(&v)
				return v, -1, err
			}
		case 3:
			l := &nbtgen.Node{Tag: nbtgen.List, ListType: nbtgen.String}
			for i := tp.Choose(5); i > 0; i-- {
				l.List = append(l.List, nbtgen.GenTag(tp, nbtgen.String, 0))
			}
			rc.doc = nbtgen.Doc(l, name, network)
			rc.dec = func(r io.Reader) (any, int64, error) {
				var v []string
				_, err := nbtDecoder(r, network, false).Decode(&v)
				return v, -1, err
			}
		default:
			l := &nbtgen.Node{Tag: nbtgen.List, ListType: nbtgen.Compound}
			for i := tp.Choose(4); i > 0; i-- {
				l.List = append(l.List, genInner(tp))
			}
			rc.doc = nbtgen.Doc(l, name, network)
			rc.dec = func(r io.Reader) (any, int64, error) {
				var v []Inner
				_, err := nbtDecoder(r, network, false).Decode(&v)
				return v, -1, err
			}
		}
	case "nbt.raw":
		rc.doc = nbtgen.Doc(nbtgen.Gen(tp, 3), name, network)
		rc.dec = func(r io.Reader) (any, int64, error) {
			var v nbt.RawMessage
			_, err := nbtDecoder(r, network, false).Decode(&v)
			return v, -1, err
		}
	case "nbt.snbt":
		rc.doc = nbtgen.Doc(nbtgen.Gen(tp, 3), name, network)
		rc.dec = func(r io.Reader) (any, int64, error) {
			var v nbt.StringifiedMessage
			_, err := nbtDecoder(r, network, false).Decode(&v)
			return v, -1, err
		}
	case "nbt.dynbt":
		rc.doc = nbtgen.Doc(nbtgen.Gen(tp, 3), name, network)
		rc.dec = func(r io.Reader) (any, int64, error) {
			var v dynbt.Value
			_, err := nbtDecoder(r, network, false).Decode(&v)
			if err != nil {
				return nil, -1, err
			}
			// observe the value through its own encoder (its fields are private)
			var out bytes.Buffer
			merr := nbt.NewEncoder(&out).Encode(&v, "")
			return []any{out.Bytes(), merr == nil, v.TagType()}, -1, nil
		}
	case "field.fixed":
		doc := tp.Bytes(8)
		for i := range doc {
			doc[i] ^= byte(0x11 * (i + 1))
		}
		kind := tp.Choose(11)
		size := []int{1, 1, 1, 2, 2, 4, 8, 4, 8, 8, 1}[kind]
		if kind == 9 {
			size = 16
			doc = append(doc, tp.Bytes(8)...)
		}
		rc.doc = doc[:size]
		rc.desc = []string{"Boolean", "Byte", "UnsignedByte", "Short", "UnsignedShort", "Int", "Long", "Float", "Double", "UUID", "Angle"}[kind]
		if kind == 8 || kind == 6 {
			rc.doc = doc[:8]
		}
		rc.dec = func(r io.Reader) (any, int64, error) {
			switch kind {
			case 0:
				var v pk.Boolean
				n, err := v.ReadFrom(r)
				return v, n, err
			case 1:
				var v pk.Byte
				n, err := v.ReadFrom(r)
				return v, n, err
			case 2:
				var v pk.UnsignedByte
				n, err := v.ReadFrom(r)
				return v, n, err
			case 3:
				var v pk.Short
				n, err := v.ReadFrom(r)
				return v, n, err
			case 4:
				var v pk.UnsignedShort
				n, err := v.ReadFrom(r)
				return v, n, err
			case 5:
				var v pk.Int
				n, err := v.ReadFrom(r)
				return v, n, err
			case 6:
				var v pk.Long
				n, err := v.ReadFrom(r)
				return v, n, err
			case 7:
				var v pk.Float
				n, err := v.ReadFrom(r)
				return uint32(pk.Int(0)) + uint32(floatBits(v)), n, err
			case 8:
				var v pk.Double
				n, err := v.ReadFrom(r)
				return doubleBits(v), n, err
			case 9:
				var v pk.UUID
				n, err := v.ReadFrom(r)
				return v, n, err
			default:
				var v pk.Angle
				n, err := v.ReadFrom(r)
				return v, n, err
			}
		}
	case "field.var":
		kind := tp.Choose(3)
		switch kind {
		case 0:
			rc.doc = frame.PutVarint(nil, gen.PacketID(tp))
			rc.desc = "VarInt"
			rc.dec = func(r io.Reader) (any, int64, error) {
				var v pk.VarInt
				n, err := v.ReadFrom(r)
				return v, n, err
			}
		case 1:
			u := tp.U64() >> uint(tp.Choose(64))
			var b []byte
			for {
				if u&^0x7f == 0 {
					b = append(b, byte(u))
					break
				}
				b = append(b, byte(u&0x7f|0x80))
				u >>= 7
			}
			rc.doc = b
			rc.desc = "VarLong"
			rc.dec = func(r io.Reader) (any, int64, error) {
				var v pk.VarLong
				n, err := v.ReadFrom(r)
				return v, n, err
			}
		default:
			rc.doc = tp.Bytes(8)
			rc.doc[0] ^= 0x3c
			rc.desc = "Position"
			rc.dec = func(r io.Reader) (any, int64, error) {
				var v pk.Position
				n, err := v.ReadFrom(r)
				return v, n, err
			}
		}
	case "field.string":
		s := gen.Fill(tp, tp.Choose(200), 9, 1)
		rc.doc = append(frame.PutVarint(nil, int32(len(s))), s...)
		ident := tp.Bool(1, 3)
		rc.dec = func(r io.Reader) (any, int64, error) {
			if ident {
				var v pk.Identifier
				n, err := v.ReadFrom(r)
				return v, n, err
			}
			var v pk.String
			n, err := v.ReadFrom(r)
			return v, n, err
		}
	case "field.bytes":
		s := gen.Fill(tp, tp.Choose(300), 9, 2)
		rc.doc = append(frame.PutVarint(nil, int32(len(s))), s...)
		rc.dec = func(r io.Reader) (any, int64, error) {
			var v pk.ByteArray
			n, err := v.ReadFrom(r)
			return v, n, err
		}
	case "field.bitset":
		cnt := tp.Choose(6)
		rc.doc = frame.PutVarint(nil, int32(cnt))
		rc.doc = append(rc.doc, gen.Fill(tp, 8*cnt, 9, 3)...)
		rc.dec = func(r io.Reader) (any, int64, error) {
			var v pk.BitSet
			n, err := v.ReadFrom(r)
			return v, n, err
		}
	case "field.fixedbitset":
		bits := 1 + tp.Choose(200)
		rc.doc = gen.Fill(tp, (bits+7)/8, 9, 4)
		for i := range rc.doc {
			rc.doc[i] |= 1
		}
		rc.dec = func(r io.Reader) (any, int64, error) {
			v := pk.NewFixedBitSet(int64(bits))
			n, err := v.ReadFrom(r)
			return v, n, err
		}
	case "field.plugin":
		rc.doc = gen.Fill(tp, tp.Choose(100), 9, 5)
		rc.noTrunc = true
		rc.dec = func(r io.Reader) (any, int64, error) {
			var v pk.PluginMessageData
			n, err := v.ReadFrom(r)
			return v, n, err
		}
	case "field.nbt":
		which := tp.Choose(3)
		switch which {
		case 0:
			rc.doc = nbtgen.Doc(nbtgen.Gen(tp, 2), "", true)
			rc.dec = func(r io.Reader) (any, int64, error) {
				var v any
				n, err := pk.NBTField{V: &v, AllowUnknownFields: true}.ReadFrom(r)
				return v, n, err
			}
		case 1:
			rc.doc = nbtgen.Doc(genRec(tp, false), "", true)
			rc.dec = func(r io.Reader) (any, int64, error) {
				var v Rec
				n, err := pk.NBT(&v).ReadFrom(r)
				return v, n, err
			}
		default:
			rc.doc = nbtgen.Doc(genRec(tp, true), "", true)
			rc.dec = func(r io.Reader) (any, int64, error) {
				var v Rec
				n, err := pk.NBTField{V: &v, AllowUnknownFields: true}.ReadFrom(r)
				return v, n, err
			}
		}
	case "field.chat":
		// text components: a length-prefixed JSON text (with the white space a
		// foreign encoder may leave around the value) or an NBT tag
		word := func() string {
			return []string{"", "hi", "a b", "\u00e9\u4e16", "x\\ny", "0123456789012345678901234567890123456789"}[tp.Choose(6)]
		}
		if tp.Bool(1, 2) {
			var js string
			switch tp.Choose(4) {
			case 0:
				js = `"` + word() + `"`
			case 1:
				js = `{"text":"` + word() + `","bold":true}`
			case 2:
				js = `{"text":"` + word() + `","extra":["` + word() + `",{"text":"` + word() + `","color":"red"}]}`
			default:
				js = `["` + word() + `",{"text":"` + word() + `"}]`
			}
			ws := []string{"", " ", "\n", "\r\n", "  \t ", "\n\n\n\n"}
			js = ws[tp.Choose(len(ws))] + js + ws[tp.Choose(len(ws))]
			rc.doc = append(frame.PutVarint(nil, int32(len(js))), js...)
			rc.dec = func(r io.Reader) (any, int64, error) {
				var v chat.JsonMessage
				n, err := v.ReadFrom(r)
				return v, n, err
			}
		} else {
			root := &nbtgen.Node{Tag: nbtgen.String, Str: word()}
			if tp.Bool(2, 3) {
				root = &nbtgen.Node{Tag: nbtgen.Compound, Keys: []string{"text", "bold"},
					Vals: []*nbtgen.Node{{Tag: nbtgen.String, Str: word()}, {Tag: nbtgen.Byte, Num: uint64(tp.Choose(2))}}}
				if tp.Bool(1, 2) {
					root.Keys = append(root.Keys, "extra")
					root.Vals = append(root.Vals, &nbtgen.Node{Tag: nbtgen.List, ListType: nbtgen.Compound, List: []*nbtgen.Node{
						{Tag: nbtgen.Compound, Keys: []string{"text"}, Vals: []*nbtgen.Node{{Tag: nbtgen.String, Str: word()}}},
						{Tag: nbtgen.Compound, Keys: []string{"text", "color"}, Vals: []*nbtgen.Node{{Tag: nbtgen.String, Str: word()}, {Tag: nbtgen.String, Str: "red"}}},
					}})
				}
			}
			rc.doc = nbtgen.Doc(root, "", true)
			rc.dec = func(r io.Reader) (any, int64, error) {
				var v chat.Message
				n, err := v.ReadFrom(r)
				return v, n, err
			}
		}
	case "field.option":
		has := tp.Bool(2, 3)
		s := gen.Fill(tp, tp.Choose(60), 9, 6)
		if has {
			rc.doc = append([]byte{1}, frame.PutVarint(nil, int32(len(s)))...)
			rc.doc = append(rc.doc, s...)
		} else {
			rc.doc = []byte{0}
		}
		rc.dec = func(r io.Reader) (any, int64, error) {
			var v pk.Option[pk.String, *pk.String]
			n, err := v.ReadFrom(r)
			return v, n, err
		}
	case "field.opt":
		rc.doc = gen.Fill(tp, 8, 9, 7)
		rc.dec = func(r io.Reader) (any, int64, error) {
			has := true
			var v pk.Long
			n, err := pk.Opt{Has: &has, Field: &v}.ReadFrom(r)
			return v, n, err
		}
	case "field.ary":
		cnt := tp.Choose(6)
		rc.doc = frame.PutVarint(nil, int32(cnt))
		for i := 0; i < cnt; i++ {
			s := gen.Fill(tp, tp.Choose(20), 9, i)
			rc.doc = append(rc.doc, frame.PutVarint(nil, int32(len(s)))...)
			rc.doc = append(rc.doc, s...)
		}
		rc.dec = func(r io.Reader) (any, int64, error) {
			var v []pk.String
			n, err := pk.Array(&v).ReadFrom(r)
			return v, n, err
		}
	case "field.tuple":
		s := gen.Fill(tp, tp.Choose(30), 9, 8)
		rc.doc = frame.PutVarint(nil, gen.PacketID(tp))
		rc.doc = append(rc.doc, frame.PutVarint(nil, int32(len(s)))...)
		rc.doc = append(rc.doc, s...)
		rc.doc = append(rc.doc, gen.Fill(tp, 2+8+16, 9, 9)...)
		rc.dec = func(r io.Reader) (any, int64, error) {
			var (
				a pk.VarInt
				b pk.String
				c pk.UnsignedShort
				d pk.Long
				e pk.UUID
			)
			n, err := pk.Tuple{&a, &b, &c, &d, &e}.ReadFrom(r)
			return []any{a, b, c, d, e}, n, err
		}
	case "field.signature":
		rc.doc = gen.Fill(tp, 256, 9, 10)
		for i := range rc.doc {
			rc.doc[i] |= 0x80
		}
		rc.dec = func(r io.Reader) (any, int64, error) {
			var v sign.Signature
			n, err := v.ReadFrom(r)
			return v, n, err
		}
	case "field.packedsignature":
		// id (VarInt) then, for the marker value, the 256 signature bytes. (The
		// method has a value receiver, so the decoded value is lost to the caller;
		// byte count, error and stream position are what can be compared.)
		if tp.Bool(2, 3) {
			rc.doc = append(frame.PutVarint(nil, -1), gen.Fill(tp, 256, 9, 12)...)
		} else {
			rc.doc = frame.PutVarint(nil, int32(tp.Choose(300)))
		}
		rc.dec = func(r io.Reader) (any, int64, error) {
			var v sign.PackedSignature
			n, err := v.ReadFrom(r)
			return nil, n, err
		}
	case "rcon.readpacket":
		payload := gen.Fill(tp, tp.Choose(120), 9, 11)
		rc.doc = rconFrame(int32(tp.U64()), int32(tp.Choose(4)), string(payload))
		rc.dec = func(r io.Reader) (any, int64, error) {
			c := &mcnet.RCONConn{Conn: &simio.Conn{R: r}}
			id, typ, p, err := c.ReadPacket()
			return []any{id, typ, p}, -1, err
		}
	default:
		panic("unknown read op " + op)
	}
	if rc.desc == "" {
		rc.desc = op
	}
	return rc
}

func floatBits(f pk.Float) uint32 {
	var b bytes.Buffer
	f.WriteTo(&b)
	return binary.BigEndian.Uint32(b.Bytes())
}

func doubleBits(d pk.Double) uint64 {
	var b bytes.Buffer
	d.WriteTo(&b)
	return binary.BigEndian.Uint64(b.Bytes())
}

// ---------------------------------------------------------------- write cases

var writeOps = []string{
	"packet.pack.plain", "packet.pack.zlib", "conn.writepacket",
	"nbt.enc.struct", "nbt.enc.any", "nbt.enc.raw", "nbt.enc.snbt", "nbt.enc.dynbt",
	"field.write", "field.write.nbt", "rcon.writepacket",
}

func decodeTo[T any](doc []byte, network bool) (T, error) {
	var v T
	d := nbt.NewDecoder(bytes.NewReader(doc))
	d.NetworkFormat(network)
	_, err := d.Decode(&v)
	return v, err
}

// singlePath removes every compound key but one per level so that encoding a
// map-backed value has a deterministic byte order.
func singlePath(n *nbtgen.Node) {
	if n.Tag == nbtgen.Compound && len(n.Keys) > 1 {
		n.Keys, n.Vals = n.Keys[:1], n.Vals[:1]
	}
	for _, c := range n.Vals {
		singlePath(c)
	}
	for _, c := range n.List {
		singlePath(c)
	}
}

func genWriteCase(tp *tape.Tape, op string) *writeCase {
	wc := &writeCase{op: op, desc: op}
	network := tp.Bool(1, 2)
	switch op {
	case "packet.pack.plain":
		p := pk.Packet{ID: gen.PacketID(tp), Data: gen.Fill(tp, tp.Choose(300), 4, 0)}
		if tp.Bool(1, 4) {
			pWriteLong.Hit()
			p.Data = gen.Fill(tp, 4000+tp.Choose(9000), 4, 2)
		}
		wc.enc = func(w io.Writer) (int64, error) { return -1, p.Pack(w, -1) }
	case "packet.pack.zlib", "conn.writepacket":
		th := []int{0, 1, 16, 64, 256}[tp.Choose(5)]
		p := pk.Packet{ID: gen.PacketID(tp), Data: gen.Fill(tp, tp.Choose(300), 4, 1)}
		if tp.Bool(1, 4) {
			// longer than typical block/batch sizes and "large payload" shortcuts
			pWriteLong.Hit()
			p.Data = gen.Fill(tp, 4000+tp.Choose(9000), 4, 2)
		}
		if op == "conn.writepacket" {
			var key, iv []byte
			if tp.Bool(1, 2) {
				pWriteEncrypted.Hit()
				key, iv = tp.Bytes(16), tp.Bytes(16)
			}
			wc.enc = func(w io.Writer) (int64, error) {
				c := &mcnet.Conn{Writer: w}
				c.SetThreshold(th)
				if key != nil {
					// the cipher wraps the socket: c.Socket is what SetCipher encrypts onto
					c.Socket = &simio.Conn{W: w}
					blk, _ := aes.NewCipher(key)
					c.SetCipher(CFB8.NewCFB8Encrypt(blk, iv), CFB8.NewCFB8Decrypt(blk, iv))
				}
				return -1, c.WritePacket(p)
			}
		} else {
			wc.enc = func(w io.Writer) (int64, error) { return -1, p.Pack(w, th) }
		}
	case "nbt.enc.struct":
		v, err := decodeTo[Rec](nbtgen.Doc(genRec(tp, false), "", false), false)
		if err != nil {
			return nil
		}
		wc.enc = func(w io.Writer) (int64, error) {
			e := nbt.NewEncoder(w)
			e.NetworkFormat(network)
			return -1, e.Encode(v, "root")
		}
	case "nbt.enc.any":
		root := nbtgen.Gen(tp, 3)
		// Multi-key maps are encoded in Go's random map order. That is sound here:
		// every offset of the output is failed in turn, so which write crosses a
		// given offset does not matter for the verdict, and nothing order-dependent
		// is folded into the event hash.
		if tp.Bool(1, 2) {
			singlePath(root)
		}
		v, err := decodeTo[any](nbtgen.Doc(root, "", false), false)
		if err != nil || v == nil {
			return nil
		}
		wc.enc = func(w io.Writer) (int64, error) {
			e := nbt.NewEncoder(w)
			e.NetworkFormat(network)
			return -1, e.Encode(v, "x")
		}
	case "nbt.enc.raw":
		v, err := decodeTo[nbt.RawMessage](nbtgen.Doc(nbtgen.Gen(tp, 3), "", false), false)
		if err != nil {
			return nil
		}
		wc.enc = func(w io.Writer) (int64, error) {
			e := nbt.NewEncoder(w)
			e.NetworkFormat(network)
			return -1, e.Encode(v, "raw")
		}
	case "nbt.enc.snbt":
		v, err := decodeTo[nbt.StringifiedMessage](nbtgen.Doc(nbtgen.Gen(tp, 2), "", false), false)
		if err != nil {
			return nil
		}
		wc.enc = func(w io.Writer) (int64, error) {
			e := nbt.NewEncoder(w)
			e.NetworkFormat(network)
			return -1, e.Encode(v, "s")
		}
	case "nbt.enc.dynbt":
		doc := nbtgen.Doc(nbtgen.Gen(tp, 3), "", false)
		wc.enc = func(w io.Writer) (int64, error) {
			v, err := decodeTo[dynbt.Value](doc, false)
			if err != nil {
				return -1, nil // skipped by the baseline check
			}
			e := nbt.NewEncoder(w)
			e.NetworkFormat(network)
			return -1, e.Encode(&v, "d")
		}
	case "field.write":
		var f pk.FieldEncoder
		switch tp.Choose(12) {
		case 0:
			f = pk.String(gen.Fill(tp, tp.Choose(100), 5, 0))
		case 1:
			f = pk.ByteArray(gen.Fill(tp, tp.Choose(100), 5, 1))
		case 2:
			bs := make(pk.BitSet, tp.Choose(5))
			for i := range bs {
				bs[i] = int64(tp.U64())
			}
			f = bs
		case 3:
			f = pk.Tuple{pk.VarInt(gen.PacketID(tp)), pk.String("abc"), pk.Long(tp.U64()), pk.UUID{1, 2, 3}, pk.Position{X: 1, Y: 2, Z: 3}, pk.Boolean(true), pk.Double(1.5), pk.Float(2.5), pk.Short(7), pk.UnsignedByte(9), pk.Angle(3), pk.VarLong(tp.U64())}
		case 4:
			f = pk.Option[pk.String, *pk.String]{Has: true, Val: pk.String(gen.Fill(tp, tp.Choose(40), 5, 2))}
		case 5:
			arr := make([]pk.String, tp.Choose(5))
			for i := range arr {
				arr[i] = pk.String(gen.Fill(tp, tp.Choose(20), 5, i))
			}
			f = pk.Array(arr)
		case 6:
			has := true
			f = pk.Opt{Has: &has, Field: pk.ByteArray(gen.Fill(tp, tp.Choose(40), 5, 3))}
		case 7:
			fb := pk.NewFixedBitSet(int64(1 + tp.Choose(100)))
			for i := range fb {
				fb[i] = byte(i + 1)
			}
			f = fb
		case 8:
			var s sign.Signature
			copy(s[:], gen.Fill(tp, 256, 5, 4))
			f = s
		case 9:
			f = pk.PluginMessageData(gen.Fill(tp, tp.Choose(60), 5, 5))
		case 10:
			f = pk.Identifier(gen.Fill(tp, tp.Choose(60), 5, 6))
		default:
			f = pk.Tuple{pk.Int(tp.U64()), pk.UnsignedShort(5), pk.Byte(1)}
		}
		wc.enc = func(w io.Writer) (int64, error) { return f.WriteTo(w) }
	case "field.write.nbt":
		v, err := decodeTo[Rec](nbtgen.Doc(genRec(tp, false), "", false), false)
		if err != nil {
			return nil
		}
		v.M = nil
		if m, ok := v.Any.(map[string]any); ok && len(m) > 1 {
			v.Any = nil
		}
		wc.enc = func(w io.Writer) (int64, error) { return pk.NBT(v).WriteTo(w) }
	case "rcon.writepacket":
		payload := string(gen.Fill(tp, tp.Choose(200), 5, 7))
		id, typ := int32(tp.U64()), int32(tp.Choose(4))
		wc.enc = func(w io.Writer) (int64, error) {
			c := &mcnet.RCONConn{Conn: &simio.Conn{W: w}}
			return -1, c.WritePacket(id, typ, payload)
		}
	default:
		panic("unknown write op " + op)
	}
	return wc
}

var _ = reflect.DeepEqual
var _ = zlib.NewWriter

var pWriteEncrypted = simrt.NewProbe("write.conn.writepacket.through.an.installed.cipher")

var pWriteLong = simrt.NewProbe("write.packet.payload.4000..13000.bytes")

var pUnpackLong = simrt.NewProbe("read.packet.payload.beyond.32KiB")

// unpackLen: mostly small payloads (every offset is failed), sometimes beyond
// typical buffer sizes, occasionally beyond 32 KiB (chunked readers, flate
// windows) - the offsets next to multiples of 256 and 4096 are always failed.
func unpackLen(tp *tape.Tape) int {
	switch tp.Pick(20, 3, 1) {
	case 1:
		return 4000 + tp.Choose(9000)
	case 2:
		pUnpackLong.Hit()
		return 32768*(1+tp.Choose(4)) - 40 + tp.Choose(80)
	}
	return tp.Choose(200)
}
