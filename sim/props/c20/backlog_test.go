package c20

import (
	"fmt"

	pk "github.com/Tnze/go-mc/net/packet"
	"github.com/Tnze/go-mc/net/queue"

	"verifsim/harness"
	"verifsim/kernel"
	"verifsim/simrt"
	"verifsim/simsync"
)

var (
	pBacklog2k = simrt.NewProbe("backlog.more.than.2048.items.queued.at.once")
	pBacklog64 = simrt.NewProbe("backlog.more.than.64.items.queued.at.once")
)

// ---------------------------------------------------------------- K: backlog
//
// The queues are unbounded (linked) or as large as asked (channel): a consumer
// that lags far behind leaves thousands of items queued. Representations that
// grow, shrink or compact (rings, slices with a head index) have their special
// values there, far from the handful of items the interleaving scenario Q
// uses. Exactly-once, per-producer order and drain-after-Close are checked
// directly (the histories are far too long for the linearizability checker).

type backlogState struct {
	got   [][]int32 // per consumer
	fail  string
	count int
}

//go:norace
func (s *backlogState) inc() int { s.count++; return s.count }

//go:norace
func (s *backlogState) pulled(k int, id int32) { s.got[k] = append(s.got[k], id) }

//go:norace
func (s *backlogState) failf(format string, a ...any) {
	if s.fail == "" {
		s.fail = fmt.Sprintf(format, a...)
	}
}

func scenarioK(c *harness.Ctx) {
	tp := c.T
	linked := tp.Bool(2, 3)
	nProd := 1 + tp.Pick(4, 2, 1)
	nCons := 1 + tp.Pick(4, 2, 1)
	// total number of items: around sizes where growing/compacting containers change shape
	base := []int{40, 64, 65, 128, 255, 256, 257, 1000, 1023, 1024, 1025, 2047, 2048, 2049, 2050, 3000, 4095, 4096, 4097, 6000}[tp.Choose(20)]
	total := base + tp.Choose(3)
	// the consumers start only after `lag` items were pushed, and pause again later
	lag := total
	switch tp.Choose(4) {
	case 0:
		lag = total / 2
	case 1:
		lag = tp.Choose(total + 1)
	}
	pauseAt := tp.Choose(total + 1) // consumer 0 stops pulling for a while after this many pulls
	per := make([]int, nProd)
	for i := 0; i < total; i++ {
		per[i%nProd]++
	}
	c.Config["queue"] = map[bool]string{true: "linked", false: "channel"}[linked]
	c.Config["producers"], c.Config["consumers"], c.Config["items"], c.Config["lag"] = nProd, nCons, total, lag
	if lag > 2048 {
		pBacklog2k.Hit()
	}
	if lag > 64 {
		pBacklog64.Hit()
	}
	st := &backlogState{got: make([][]int32, nCons)}
	out, w := c.World(func(w *kernel.World) {
		w.MaxSteps = 40*total + 4000
		var q queue.Queue[pk.Packet]
		if linked {
			q = queue.NewLinkedQueue[pk.Packet]()
		} else {
			q = queue.NewChannelQueue[pk.Packet](total + 1)
		}
		var pushedN simsync.WaitGroup // released when `lag` items are in
		pushedN.Add(1)
		var prods simsync.WaitGroup
		prods.Add(nProd)
		for p := 0; p < nProd; p++ {
			p := p
			w.Go(fmt.Sprintf("prod%d", p), func() {
				defer prods.Done()
				for s := 0; s < per[p]; s++ {
					id := int32(p)<<20 | int32(s)
					if !q.Push(pk.Packet{ID: id, Data: []byte{byte(s), byte(s >> 8)}}) {
						st.failf("Push of item %d of producer %d refused although the queue has room", s, p)
						return
					}
					if st.inc() == lag {
						pushedN.Done()
					}
					if s%97 == 0 {
						w.Yield("harness.prod")
					}
				}
			})
		}
		if lag == 0 {
			pushedN.Done()
		}
		for k := 0; k < nCons; k++ {
			k := k
			w.Go(fmt.Sprintf("cons%d", k), func() {
				pushedN.Wait()
				for n := 0; ; n++ {
					if k == 0 && n == pauseAt {
						prods.Wait() // fall behind: everything else is pushed meanwhile
					}
					v, ok := q.Pull()
					if !ok {
						return
					}
					s := int(v.ID & (1<<20 - 1))
					if len(v.Data) != 2 || v.Data[0] != byte(s) || v.Data[1] != byte(s>>8) {
						st.failf("consumer %d pulled item id=%#x with data %v", k, v.ID, v.Data)
						return
					}
					st.pulled(k, v.ID)
				}
			})
		}
		w.Go("closer", func() {
			prods.Wait()
			q.Close()
		})
	})
	if c.Infra != "" {
		return
	}
	c.TaskPanics(w, "backlog")
	if c.Failed() {
		return
	}
	qname := c.Config["queue"].(string)
	if out != kernel.OutDone {
		c.Fail("backlog.liveness", qname, fmt.Sprint(out), "world did not finish (%d items, lag %d): %v %v", total, lag, out, w.DeadlockAt)
		return
	}
	if st.fail != "" {
		c.Fail("backlog", qname, "content", "%s", st.fail)
		return
	}
	// exactly once, each producer's items in order at every consumer, nothing left behind
	seen := make([][]bool, nProd)
	for p := range seen {
		seen[p] = make([]bool, per[p])
	}
	n := 0
	for k, g := range st.got {
		last := make([]int, nProd)
		for p := range last {
			last[p] = -1
		}
		for _, id := range g {
			p, s := int(id>>20), int(id&(1<<20-1))
			if p < 0 || p >= nProd || s >= per[p] {
				c.Fail("backlog", qname, "phantom", "consumer %d pulled item id=%#x which was never pushed (%d items, lag %d)", k, id, total, lag)
				return
			}
			if seen[p][s] {
				c.Fail("backlog", qname, "duplicate", "item %d of producer %d was delivered twice (%d items, lag %d)", s, p, total, lag)
				return
			}
			seen[p][s] = true
			if s < last[p] {
				c.Fail("backlog", qname, "order", "consumer %d pulled item %d of producer %d after item %d (%d items, lag %d)", k, s, p, last[p], total, lag)
				return
			}
			last[p] = s
			n++
		}
	}
	if n != total {
		c.Fail("backlog", qname, "lost", "%d of %d pushed items were delivered before the queue reported closure (lag %d, %d consumers)", n, total, lag, nCons)
		return
	}
	c.Fold(uint64(total), uint64(lag))
	c.Nontrivial = true
	c.FP = uint64(total)<<32 | uint64(lag)<<8 | uint64(nProd)<<4 | uint64(nCons)
}
