//go:build !verif_nowarp

package c20

import "github.com/Tnze/go-mc/bot"

var warpConn = bot.VerifWarpConn
