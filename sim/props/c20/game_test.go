package c20

import (
	"bytes"
	"errors"
	"fmt"

	"github.com/Tnze/go-mc/bot"
	"github.com/Tnze/go-mc/data/packetid"
	mcnet "github.com/Tnze/go-mc/net"
	pk "github.com/Tnze/go-mc/net/packet"
	"github.com/Tnze/go-mc/net/queue"

	"verifsim/gen"
	"verifsim/harness"
	"verifsim/kernel"
	"verifsim/simnet"
	"verifsim/simrt"
)

var (
	pGameBundle   = simrt.NewProbe("gameloop.bundle.of>=2.packets")
	pGameFailed   = simrt.NewProbe("gameloop.handler.error.then.HandleGame.called.again")
	pGameFailedIn = simrt.NewProbe("gameloop.handler.error.inside.a.bundle.not.at.its.first.packet")
	pGameInFlight = simrt.NewProbe("gameloop.handler.parked.while.reader.goroutine.unpacks.next")
)

// ---------------------------------------------------------------- G: game loop over the receive pool
//
// The bot connection's reader goroutine takes a buffer from the connection's
// pool for every packet; HandleGame gives it back after the handlers ran. A
// handler may fail: the example bots report the PacketHandlerError and call
// HandleGame again. Whatever happens, a handler must see exactly the bytes the
// peer sent for that packet, also while the reader goroutine is already
// unpacking the following packets ("a pooled buffer retained by a returned
// packet").

type gameState struct {
	seen     []pk.Packet
	corrupt  string
	handlerE int
	finalErr error
	returned bool
}

//go:norace
func (s *gameState) saw(p pk.Packet) int {
	s.seen = append(s.seen, pk.Packet{ID: p.ID, Data: append([]byte(nil), p.Data...)})
	return len(s.seen) - 1
}

//go:norace
func (s *gameState) setCorrupt(m string) {
	if s.corrupt == "" {
		s.corrupt = m
	}
}

//go:norace
func (s *gameState) handlerError() { s.handlerE++ }

//go:norace
func (s *gameState) done(err error) { s.finalErr, s.returned = err, true }

var errGameHandler = errors.New("injected handler failure")

func scenarioG(c *harness.Ctx) {
	tp := c.T
	if warpConn == nil {
		pWarpUnavailable.Hit()
		return
	}
	linked := tp.Bool(1, 2)
	threshold := gen.Threshold(tp, false)
	type item struct {
		id     int32
		data   []byte
		bundle int
		fail   bool
		park   int
	}
	ids := []int32{1, 2, 3, 7, 40, int32(packetid.ClientboundPacketIDGuard) - 1}
	n := 1 + tp.Choose(40)
	base := tp.Choose(300) // similar sizes: a pooled array fits the packets that follow
	var script []item
	bundle, nb := -1, 0
	for i := 0; i < n; i++ {
		if bundle < 0 && tp.Bool(1, 4) {
			bundle = nb
			nb++
		} else if bundle >= 0 && tp.Bool(1, 4) {
			bundle = -1
			if tp.Bool(1, 3) {
				bundle = nb
				nb++
			}
		}
		id := ids[tp.Choose(len(ids))]
		l := base - tp.Choose(min(base, 8)+1)
		if tp.Bool(1, 6) {
			l = gen.PayloadLen(tp, threshold, id, 600)
		}
		it := item{id: id, data: gen.Fill(tp, l, 70, i), bundle: bundle, fail: tp.Bool(1, 8)}
		if tp.Bool(1, 3) {
			it.park = 1 + tp.Choose(6)
		}
		script = append(script, it)
	}
	// reference dispatch: a failing handler drops the rest of its bundle
	var exp []int
	wantErrs := 0
	skip := -1
	inBundle := map[int]int{}
	for i, it := range script {
		if it.bundle >= 0 {
			inBundle[it.bundle]++
			if inBundle[it.bundle] == 2 {
				pGameBundle.Hit()
			}
		}
		if skip >= 0 && it.bundle == skip {
			continue
		}
		skip = -1
		exp = append(exp, i)
		if it.fail {
			wantErrs++
			skip = it.bundle
			if it.bundle >= 0 && inBundle[it.bundle] >= 2 {
				pGameFailedIn.Hit()
			}
		}
	}
	if wantErrs > 0 {
		pGameFailed.Hit()
	}
	c.Config["linked"] = linked
	c.Config["threshold"] = threshold
	c.Config["packets"] = n
	c.Config["bundles"] = nb
	c.Config["handler_failures"] = wantErrs
	total := 0
	for _, it := range script {
		total += len(it.data) + 16
	}
	cfgAB, cfgBA := simnet.DrawCfgFor(tp, total), simnet.DrawCfgFor(tp, total)
	st := &gameState{}
	out, w := c.World(func(w *kernel.World) {
		w.Drain = true
		link := simnet.Pipe(w, "gl", cfgAB, cfgBA)
		var qr, qw queue.Queue[pk.Packet]
		if linked {
			qr, qw = queue.NewLinkedQueue[pk.Packet](), queue.NewLinkedQueue[pk.Packet]()
		} else {
			qr, qw = queue.NewChannelQueue[pk.Packet](3*n+8), queue.NewChannelQueue[pk.Packet](8)
		}
		w.Go("peer", func() {
			conn := mcnet.WrapConn(link.B)
			conn.SetThreshold(threshold)
			delim := pk.Packet{ID: int32(packetid.BundleDelimiter)}
			cur := -1
			for _, it := range script {
				if it.bundle != cur {
					if cur >= 0 {
						if conn.WritePacket(delim) != nil {
							return
						}
					}
					if it.bundle >= 0 {
						if conn.WritePacket(delim) != nil {
							return
						}
					}
					cur = it.bundle
				}
				if conn.WritePacket(pk.Packet{ID: it.id, Data: it.data}) != nil {
					return
				}
			}
			if cur >= 0 {
				if conn.WritePacket(delim) != nil {
					return
				}
			}
			link.B.Close()
		})
		w.Go("game", func() {
			mc := mcnet.WrapConn(link.A)
			mc.SetThreshold(threshold)
			client := bot.NewClient()
			client.Conn = warpConn(mc, qr, qw)
			client.Events.AddGeneric(bot.PacketHandler{Priority: 0, F: func(p pk.Packet) error {
				k := st.saw(p)
				if k >= len(exp) {
					return nil
				}
				it := script[exp[k]]
				for y := 0; y < it.park; y++ {
					pGameInFlight.Hit()
					w.Yield("harness.handler")
				}
				if p.ID != it.id || !bytes.Equal(p.Data, it.data) {
					st.setCorrupt(fmt.Sprintf("invocation %d: the handler's packet (id=%d, %d bytes) no longer equals packet %d of the script (id=%d, %d bytes) after the handler waited", k, p.ID, len(p.Data), exp[k], it.id, len(it.data)))
				}
				if it.fail {
					return errGameHandler
				}
				return nil
			}})
			var err error
			for round := 0; round <= n+1; round++ {
				err = client.HandleGame()
				var he bot.PacketHandlerError
				if !errors.As(err, &he) {
					break
				}
				st.handlerError()
			}
			st.done(err)
			client.Close()
		})
	})
	if c.Infra != "" {
		return
	}
	c.TaskPanics(w, "gameloop")
	if c.Failed() {
		return
	}
	if out != kernel.OutDone {
		c.Fail("gameloop.liveness", "world", fmt.Sprint(out), "world did not finish: %v %v", out, w.DeadlockAt)
		return
	}
	if !st.returned {
		c.Fail("gameloop.liveness", "handlegame", "never-returned", "HandleGame never returned although the peer closed the connection")
		return
	}
	for k, g := range st.seen {
		if k >= len(exp) {
			c.Fail("gameloop", "dispatch", "extra", "%d handler invocations, %d packets were due (first extra: id=%d, %d bytes)", len(st.seen), len(exp), g.ID, len(g.Data))
			return
		}
		it := script[exp[k]]
		if g.ID != it.id || !bytes.Equal(g.Data, it.data) {
			c.Fail("gameloop", "dispatch", "order-or-content", "invocation %d: the handler was given id=%d with %d bytes, packet %d of the script is id=%d with %d bytes (equal length: %v)", k, g.ID, len(g.Data), exp[k], it.id, len(it.data), len(g.Data) == len(it.data))
			return
		}
	}
	if st.corrupt != "" {
		c.Fail("gameloop", "pool", "payload-changed-during-dispatch", "%s", st.corrupt)
		return
	}
	if len(st.seen) < len(exp) {
		c.Fail("gameloop", "dispatch", "lost", "the peer sent its script and closed; %d of %d due packets reached the handler; HandleGame returned %v", len(st.seen), len(exp), st.finalErr)
		return
	}
	if st.handlerE != wantErrs {
		c.Fail("gameloop", "handlegame", "handler-errors", "%d handler failures were injected, HandleGame reported %d", wantErrs, st.handlerE)
		return
	}
	c.Fold(uint64(len(st.seen)), uint64(st.handlerE))
}
