package c20

import (
	"testing"

	"verifsim/harness"
)

var prop = &harness.Property{
	ID: "C20",
	Scenarios: []harness.Scenario{
		{Name: "Q", Weight: 10, Run: scenarioQ},
	},
	Real: []string{"net/queue.LinkedListQueue", "net/queue.ChannelQueue"},
	Stub: []string{"sync primitives (simsync, simulator-owned)"},
	Rule: "a run is one seeded world (scenario, sizes, scheduling policy, pool policy all drawn from the tape); non-trivial = the schedule contained more context switches than tasks; distinct = distinct hash of the (task, park-site) sequence",
}

func TestWorker(t *testing.T) { harness.Main(t, prop) }
