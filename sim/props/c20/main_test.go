package c20

import (
	"testing"

	"verifsim/harness"
)

var prop = &harness.Property{
	ID: "C20",
	Scenarios: []harness.Scenario{
		{Name: "Q", Weight: 10, Run: scenarioQ},
		{Name: "P", Weight: 3, Run: scenarioP},
		{Name: "N", Weight: 2, Run: scenarioN},
		{Name: "B", Weight: 3, Run: scenarioB},
		{Name: "G", Weight: 3, Run: scenarioG},
		{Name: "K", Weight: 1, Run: scenarioK},
		{Name: "L", Weight: 3, Run: scenarioL},
	},
	Real:        []string{"net/queue.LinkedListQueue", "net/queue.ChannelQueue", "bot.Conn (warpConn reader/writer goroutines)", "bot.Client.HandleGame/handleBundlePackets/handlePacket over bot.Conn (resumed after handler errors)", "net/packet Pack/UnPack with bufPool/zlibPool", "nbt encode/decode with the per-type cache", "server.PlayerList"},
	Stub:        []string{"sync primitives (simsync, simulator-owned: Mutex, Cond, Pool, Map, WaitGroup)", "simulated links"},
	Assumptions: []string{"pushing after Close is a contract violation of the queues (they panic) and is never generated", "interleavings are explored at synchronisation/IO operations; memory-level races are the race build's job"},
	Rule:        "a run is one seeded world: Q = producers/consumers/closer on either queue (modes close/quota/late), P = 2-8 packet streams sharing the pools, N = 2-8 tasks encoding/decoding through the type cache, B = bot.Conn with peer and close from either side, L = concurrent join/leave/sample on the player list; sizes, scheduling policy, pool policy drawn from the tape; every run also executes in the -race build. Non-trivial = more context switches than tasks; distinct = distinct hash of the (task, park-site) sequence",
}

func TestWorker(t *testing.T) { harness.Main(t, prop) }
