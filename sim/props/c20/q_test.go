package c20

import (
	"fmt"
	"sort"
	"strings"
	"time"

	pk "github.com/Tnze/go-mc/net/packet"
	"github.com/Tnze/go-mc/net/queue"

	"verifsim/harness"
	"verifsim/kernel"
	"verifsim/oracle/fifo"
	"verifsim/simrt"
	"verifsim/simsync"
)

var (
	pQClosedWhileBlocked = simrt.NewProbe("queue.close.while.consumer.blocked")
	pQRefused            = simrt.NewProbe("queue.bounded.push.refused")
	pQPullAfterClose     = simrt.NewProbe("queue.items.drained.after.close")
	pQPorcupineRun       = simrt.NewProbe("queue.porcupine.checked")
	pQLong               = simrt.NewProbe("queue.long.history(no.linearizability.check)")
)

// kindOf strips the numeric suffix of a task name: "cons3" -> "cons".
func kindOf(name string) string {
	return strings.TrimRight(name, "0123456789")
}

// deadlockSig turns ["cons2@cond","cons0@cond"] into "cons@cond".
func deadlockSig(list []string) string {
	set := map[string]bool{}
	for _, s := range list {
		at := strings.IndexByte(s, '@')
		if at < 0 {
			set[s] = true
			continue
		}
		set[kindOf(s[:at])+s[at:]] = true
	}
	var keys []string
	for k := range set {
		keys = append(keys, k)
	}
	sort.Strings(keys)
	return strings.Join(keys, ",")
}

// scenarioQ: producers, consumers and a closer on one queue.
func scenarioQ(c *harness.Ctx) {
	tp := c.T
	linked := tp.Bool(1, 2)
	capacity := -1
	if !linked {
		capacity = tp.Choose(5) // 0..4
	}
	nProd := 1 + tp.Pick(4, 4, 3, 2, 1, 1, 1, 1)
	nCons := 1 + tp.Pick(3, 4, 3, 2, 1, 1, 1, 1)
	items := make([]int, nProd)
	total := 0
	// long histories (too long for the linearizability checker, still covered
	// by the exactly-once / order / drain / deadlock oracles)
	long := tp.Bool(1, 30)
	for i := range items {
		if long {
			items[i] = tp.Choose(19)
			if nProd*19 > 240 {
				items[i] = tp.Choose(240/nProd + 1)
			}
		} else {
			items[i] = tp.Choose(5)
			if total+items[i] > 16 {
				items[i] = 0
			}
		}
		total += items[i]
	}
	if long {
		pQLong.Hit()
	}
	closerYields := tp.Choose(6)
	yieldDen := 1 + tp.Choose(4) // harness yield density
	// mode 0: consumers pull until closure, closer closes after the producers.
	// mode 1 (quota): no close; the consumers' pull quotas sum to the number of
	//   items, so every pull must be woken by an item (lost wake-up = deadlock).
	// mode 2 (late): bounded queue only; consumers start pulling only after all
	//   producers are done, so a Push on a full queue must refuse, not block.
	mode := tp.Pick(6, 3, 2)
	if mode == 2 && linked {
		mode = 0
	}
	if mode == 1 && !linked {
		capacity = total + tp.Choose(3) // never full: producers need no retry
		if capacity == 0 {
			capacity = 1
		}
	}
	quota := make([]int, nCons)
	if mode == 1 {
		for i := 0; i < total; i++ {
			quota[tp.Choose(nCons)]++
		}
	}
	c.Config["mode"] = []string{"close", "quota", "late"}[mode]
	c.Config["capacity"] = capacity
	c.Config["queue"] = map[bool]string{true: "linked", false: "channel"}[linked]
	c.Config["capacity"] = capacity
	c.Config["producers"] = nProd
	c.Config["consumers"] = nCons
	c.Config["items"] = items

	st := &qState{consGot: make([][]pulled, nCons)}
	var q queue.Queue[pk.Packet]
	out, w := c.World(func(w *kernel.World) {
		if linked {
			q = queue.NewLinkedQueue[pk.Packet]()
		} else {
			q = queue.NewChannelQueue[pk.Packet](capacity)
		}
		var wg simsync.WaitGroup
		// Add before the tasks start so that the closer cannot pass early
		wg.Add(nProd)
		for p := 0; p < nProd; p++ {
			p := p
			w.Go(fmt.Sprintf("prod%d", p), func() {
				for s := 0; s < items[p]; s++ {
					val := 1 + p*20 + s
					if tp.Choose(yieldDen) == 0 {
						w.Yield("harness.prod")
					}
					call := w.Seq()
					ok := q.Push(pk.Packet{ID: int32(val), Data: []byte{byte(val)}})
					ret := w.Seq()
					st.pushed(p, val, ok, call, ret)
				}
				wg.Done()
			})
		}
		for k := 0; k < nCons; k++ {
			k := k
			w.Go(fmt.Sprintf("cons%d", k), func() {
				if mode == 2 {
					wg.Wait()
				}
				for n := 0; ; n++ {
					if mode == 1 && n >= quota[k] {
						return
					}
					if tp.Choose(yieldDen) == 0 {
						w.Yield("harness.cons")
					}
					call := w.Seq()
					v, ok := q.Pull()
					ret := w.Seq()
					val := int(v.ID)
					if ok && (len(v.Data) != 1 || int(v.Data[0]) != val) {
						c.Fail("queue.content", "pull", "payload", "consumer %d pulled packet id=%d with data %v", k, v.ID, v.Data)
					}
					st.pulled(k, val, ok, call, ret)
					if !ok {
						return
					}
				}
			})
		}
		w.Go("closer", func() {
			if mode == 1 {
				return
			}
			wg.Wait()
			for i := 0; i < closerYields; i++ {
				w.Yield("harness.closer")
			}
			if w.CountWaiting("cons") > 0 {
				pQClosedWhileBlocked.Hit()
			}
			call := w.Seq()
			st.closing(call)
			q.Close()
			ret := w.Seq()
			st.closed(call, ret)
		})
	})
	if c.Infra != "" {
		return
	}
	c.TaskPanics(w, "queue")
	if c.Failed() {
		return
	}
	hist, consGot, accepted, refused, closeSeq := st.hist, st.consGot, st.accepted, st.refused, st.closeSeq
	if st.pushAfter {
		c.Infra = "harness pushed after close"
		return
	}
	qname := c.Config["queue"].(string)
	switch out {
	case kernel.OutDeadlock:
		sig := deadlockSig(w.DeadlockAt)
		oracle := "deadlock"
		if strings.Contains(sig, "prod@runtime-blocked") {
			oracle = "push-blocked"
		}
		c.Fail(oracle, qname, sig, "queue=%s cap=%d: no task can run but unfinished tasks remain: %v (close issued=%v)",
			qname, capacity, w.DeadlockAt, st.closeSeq != 0)
		return
	case kernel.OutBudget:
		c.Fail("livelock", qname, "step-budget", "step budget exhausted after %d steps", w.Steps)
		return
	}
	c.Fold(uint64(len(hist)))
	for _, o := range hist {
		v := uint64(0)
		if o.Out.Ok {
			v = 1
		}
		c.Fold(uint64(o.Client), uint64(o.In.Op), uint64(o.In.Val), v, uint64(o.Out.Val), uint64(o.Call), uint64(o.Ret))
	}
	if refused > 0 {
		pQRefused.Add(refused)
	}
	// (b) exactly once, per-producer order, drain before closure
	seen := map[int]int{}
	for k, got := range consGot {
		lastSeqOf := map[int]int{}
		for i, g := range got {
			if g.closed {
				if i != len(got)-1 {
					c.Fail("queue.order", qname, "pull-after-closed", "consumer %d continued after (_,false)", k)
				}
				continue
			}
			seen[g.val]++
			p, s := (g.val-1)/20, (g.val-1)%20
			if last, ok := lastSeqOf[p]; ok && s < last {
				c.Fail("queue.order", qname, "producer-order", "consumer %d pulled item %d of producer %d after item %d", k, s, p, last)
			}
			lastSeqOf[p] = s
			if g.seq > closeSeq && closeSeq != 0 {
				pQPullAfterClose.Hit()
			}
		}
	}
	for v, acc := range accepted {
		if !acc {
			continue
		}
		switch seen[v] {
		case 1:
		case 0:
			c.Fail("queue.exactly-once", qname, "lost", "accepted item %d was never pulled although every consumer saw the close", v)
		default:
			c.Fail("queue.exactly-once", qname, "duplicate", "item %d pulled %d times", v, seen[v])
		}
	}
	for v := range seen {
		if !accepted[v] {
			c.Fail("queue.exactly-once", qname, "phantom", "item %d pulled but never accepted by Push", v)
		}
	}
	if nCons == 1 {
		// single consumer: global FIFO per producer already checked; also the
		// relative order of two items pushed by one producer is their push order
	}
	if c.Failed() {
		return
	}
	// (a) linearizability against FIFO-with-close
	if capacity != 0 && len(hist) <= 40 {
		pQPorcupineRun.Hit()
		switch fifo.Check(capacity, hist, 300*time.Millisecond) {
		case "ok":
			c.Porcupine[0]++
		case "illegal":
			c.Porcupine[1]++
			c.Fail("linearizability", qname, "fifo-with-close", "history of %d operations is not linearizable w.r.t. FIFO-with-close (cap=%d): %s", len(hist), capacity, fmtHist(hist))
		default:
			c.Porcupine[2]++
		}
	} else if capacity == 0 {
		// rendezvous channel: an accepted push must be matched by a pull that
		// overlaps it or follows it; covered by exactly-once above
	}
	if c.Trace {
		c.Logf("history: %s", fmtHist(hist))
	}
}

func fmtHist(h []fifo.Op) string {
	var sb strings.Builder
	for _, o := range h {
		switch o.In.Op {
		case fifo.OpPush:
			fmt.Fprintf(&sb, "[c%d push(%d)->%v @%d..%d] ", o.Client, o.In.Val, o.Out.Ok, o.Call, o.Ret)
		case fifo.OpPull:
			fmt.Fprintf(&sb, "[c%d pull->(%d,%v) @%d..%d] ", o.Client, o.Out.Val, o.Out.Ok, o.Call, o.Ret)
		default:
			fmt.Fprintf(&sb, "[c%d close @%d..%d] ", o.Client, o.Call, o.Ret)
		}
	}
	return sb.String()
}

type pulled struct {
	val    int
	seq    int64
	closed bool
}

// qState is the harness state shared by the tasks of scenario Q. Exactly one
// task runs at a time; the methods are //go:norace so that the race build
// sees only the synchronisation of the code under test.
type qState struct {
	hist      []fifo.Op
	consGot   [][]pulled
	accepted  [256]bool
	refused   int
	closeSeq  int64
	pushAfter bool
}

//go:norace
func (s *qState) pushed(p, val int, ok bool, call, ret int64) {
	s.hist = append(s.hist, fifo.Op{Client: p, In: fifo.In{Op: fifo.OpPush, Val: val}, Out: fifo.Out{Ok: ok}, Call: call, Ret: ret})
	if ok {
		s.accepted[val] = true
	} else {
		s.refused++
	}
	if s.closeSeq != 0 {
		s.pushAfter = true
	}
}

//go:norace
func (s *qState) pulled(k, val int, ok bool, call, ret int64) {
	s.hist = append(s.hist, fifo.Op{Client: 100 + k, In: fifo.In{Op: fifo.OpPull}, Out: fifo.Out{Ok: ok, Val: val}, Call: call, Ret: ret})
	s.consGot[k] = append(s.consGot[k], pulled{val, ret, !ok})
}

//go:norace
func (s *qState) closing(call int64) { s.closeSeq = call }

//go:norace
func (s *qState) closed(call, ret int64) {
	s.hist = append(s.hist, fifo.Op{Client: 200, In: fifo.In{Op: fifo.OpClose}, Call: call, Ret: ret})
}
