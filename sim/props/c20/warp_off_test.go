//go:build verif_nowarp

package c20

import (
	"github.com/Tnze/go-mc/bot"
	mcnet "github.com/Tnze/go-mc/net"
	pk "github.com/Tnze/go-mc/net/packet"
	"github.com/Tnze/go-mc/net/queue"
)

var warpConn func(c *mcnet.Conn, qr, qw queue.Queue[pk.Packet]) *bot.Conn
