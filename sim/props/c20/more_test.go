package c20

import (
	"bytes"
	"fmt"
	"io"
	"reflect"
	"strings"

	"github.com/google/uuid"

	"github.com/Tnze/go-mc/chat"
	"github.com/Tnze/go-mc/nbt"
	mcnet "github.com/Tnze/go-mc/net"
	pk "github.com/Tnze/go-mc/net/packet"
	"github.com/Tnze/go-mc/net/queue"
	"github.com/Tnze/go-mc/server"

	"verifsim/gen"
	"verifsim/harness"
	"verifsim/kernel"
	"verifsim/oracle/nbtgen"
	"verifsim/simnet"
	"verifsim/simrt"
	"verifsim/simsync"
)

var (
	pPoolStreams    = simrt.NewProbe("pools.streams>=4")
	pCacheSameType  = simrt.NewProbe("typecache.same.type.concurrently")
	pConnLocalClose = simrt.NewProbe("botconn.closed.locally.while.traffic")
	pConnPeerClose  = simrt.NewProbe("botconn.peer.closed")
	pConnReaped     = simrt.NewProbe("botconn.both.goroutines.gone.after.close")
	pListFull       = simrt.NewProbe("playerlist.join.refused.full")
	pListAtCap      = simrt.NewProbe("playerlist.at.capacity")
)

// ---------------------------------------------------------------- P: pools

type stream struct {
	idx       int
	threshold int
	pkts      []pk.Packet
	link      *simnet.Link
	got       []pk.Packet
	keep      bool
	err       string
}

//go:norace
func (s *stream) fail(format string, a ...any) {
	if s.err == "" {
		s.err = fmt.Sprintf(format, a...)
	}
}

//go:norace
func (s *stream) retain(p pk.Packet) { s.got = append(s.got, p) }

func scenarioP(c *harness.Ctx) {
	tp := c.T
	n := 2 + tp.Pick(5, 4, 3, 2, 1, 1, 1)
	if n >= 4 {
		pPoolStreams.Hit()
	}
	streams := make([]*stream, n)
	cfgs := make([]simnet.LinkCfg, n)
	for i := range streams {
		s := &stream{idx: i, threshold: gen.Threshold(tp, false), keep: tp.Bool(1, 2)}
		total := 0
		for k := tp.Choose(10); k >= 0; k-- {
			id := gen.PacketID(tp)
			maxLen := 1500
			if s.threshold > maxLen && total < 40000 && tp.Bool(1, 2) {
				maxLen = s.threshold + 64 // several KiB just below/at/above a mid-range threshold
			}
			l := gen.PayloadLen(tp, s.threshold, id, maxLen)
			s.pkts = append(s.pkts, pk.Packet{ID: id, Data: gen.Fill(tp, l, 40+i, len(s.pkts))})
			total += l + 8
		}
		streams[i] = s
		cfgs[i] = simnet.DrawCfgFor(tp, total)
		if cfgs[i].SegMode == 1 && total > 1500 {
			cfgs[i].SegMode = 3
		}
	}
	c.Config["streams"] = n
	out, w := c.World(func(w *kernel.World) {
		for i, s := range streams {
			s := s
			s.link = simnet.Pipe(w, fmt.Sprintf("s%d", i), cfgs[i], simnet.LinkCfg{CutAt: -1, StallAt: -1})
			w.Go(fmt.Sprintf("pack%d", i), func() {
				conn := mcnet.WrapConn(s.link.A)
				conn.SetThreshold(s.threshold)
				for j, p := range s.pkts {
					if err := conn.WritePacket(p); err != nil {
						s.fail("stream %d: WritePacket %d: %v", s.idx, j, err)
						return
					}
				}
			})
			w.Go(fmt.Sprintf("unpack%d", i), func() {
				conn := mcnet.WrapConn(s.link.B)
				conn.SetThreshold(s.threshold)
				var reused pk.Packet
				for j, want := range s.pkts {
					q := &reused
					if s.keep {
						q = new(pk.Packet)
					}
					if err := conn.ReadPacket(q); err != nil {
						s.fail("stream %d: ReadPacket %d: %v", s.idx, j, err)
						return
					}
					if q.ID != want.ID || !bytes.Equal(q.Data, want.Data) {
						foreign := ""
						if len(q.Data) >= 4 && q.Data[3] == q.Data[0]^0x5a && int(q.Data[0]) != 40+s.idx {
							foreign = fmt.Sprintf(" (carries the stamp of stream %d)", int(q.Data[0])-40)
						}
						s.fail("stream %d: packet %d unpacked as id=%d len=%d, packed id=%d len=%d%s", s.idx, j, q.ID, len(q.Data), want.ID, len(want.Data), foreign)
						return
					}
					if s.keep {
						s.retain(*q)
					}
				}
			})
		}
	})
	if c.Infra != "" {
		return
	}
	c.TaskPanics(w, "pools")
	if c.Failed() {
		return
	}
	if out != kernel.OutDone {
		c.Fail("pools.liveness", "streams", fmt.Sprint(out), "world did not finish: %v %v", out, w.DeadlockAt)
		return
	}
	for _, s := range streams {
		c.FoldBytes(s.link.TapAB())
		if s.err != "" {
			c.Fail("pools.isolation", "unpack", "mismatch", "%s", s.err)
			return
		}
		for j, g := range s.got {
			if g.ID != s.pkts[j].ID || !bytes.Equal(g.Data, s.pkts[j].Data) {
				c.Fail("pools.isolation", "retained", "late-corruption", "stream %d: packet %d returned earlier was modified by later operations on the shared pools", s.idx, j)
				return
			}
		}
	}
}

// ---------------------------------------------------------------- N: type cache

type tA struct {
	X int32  `nbt:"x"`
	S string `nbt:"s"`
}
type tB struct {
	L  []int64 `nbt:"l"`
	In tA      `nbt:"in"`
}
type tC struct {
	F float64       `nbt:"f"`
	M map[string]tA `nbt:"m"`
	B []byte        `nbt:"b"`
}
type tD struct {
	tA
	Y int16 `nbt:"y"`
}
type tE struct {
	List []tB `nbt:"list"`
	P    *tA  `nbt:"p"`
	Any  any  `nbt:"any"`
}
type tF struct {
	A, B, C, D int8
	Name       string `nbt:"name,omitempty"`
}

// Two distinct types with the same name (declared in different function
// scopes) and two anonymous struct types: a cache keyed by anything coarser
// than the reflect.Type itself confuses them.
func localT1(seed int) any {
	type T struct {
		P int32 `nbt:"p"`
		Q int32 `nbt:"q"`
	}
	return T{P: int32(seed), Q: -int32(seed)}
}

func localT2(seed int) any {
	type T struct {
		Q string `nbt:"q"`
		R int64  `nbt:"r"`
	}
	return T{Q: fmt.Sprint("q", seed), R: int64(seed) << 33}
}

func mkVal(k, seed int) any {
	a := tA{X: int32(seed*7 + 1), S: fmt.Sprintf("s-%d-%d", k, seed)}
	switch k % 10 {
	case 6:
		return localT1(seed)
	case 7:
		return localT2(seed)
	case 8:
		return struct {
			U int16 `nbt:"u"`
		}{int16(seed)}
	case 9:
		return struct {
			V string `nbt:"v"`
			W []int32
		}{fmt.Sprint(seed), []int32{int32(seed), 2}}
	case 0:
		return a
	case 1:
		return tB{L: []int64{int64(seed), -int64(seed) * 3, 1 << 40}, In: a}
	case 2:
		return tC{F: float64(seed) / 3, M: map[string]tA{"k": a}, B: []byte{byte(seed), 2, 3}}
	case 3:
		return tD{tA: a, Y: int16(seed)}
	case 4:
		return tE{List: []tB{{L: []int64{1}, In: a}}, P: &a, Any: int32(seed)}
	default:
		return tF{A: int8(seed), B: 2, C: 3, D: 4, Name: a.S}
	}
}

func roundTrip(v any) (any, error) {
	data, err := nbt.Marshal(v)
	if err != nil {
		return nil, err
	}
	out := reflect.New(reflect.TypeOf(v))
	if err := nbt.Unmarshal(data, out.Interface()); err != nil {
		return nil, err
	}
	return out.Elem().Interface(), nil
}

// caseKey returns the key in one of its capitalisations.
func caseKey(k string, salt int) string {
	if salt%2 == 0 {
		return strings.ToUpper(k)
	}
	return k
}

type cacheTask struct {
	err string
}

//go:norace
func (t *cacheTask) fail(format string, a ...any) {
	if t.err == "" {
		t.err = fmt.Sprintf(format, a...)
	}
}

func scenarioN(c *harness.Ctx) {
	tp := c.T
	n := 2 + tp.Pick(4, 4, 3, 2, 1, 1, 1)
	kinds := make([]int, n)
	same := false
	for i := range kinds {
		kinds[i] = tp.Choose(10)
		for j := 0; j < i; j++ {
			if kinds[j] == kinds[i] {
				same = true
			}
		}
	}
	if same {
		pCacheSameType.Hit()
	}
	rounds := 1 + tp.Choose(3)
	caseDocs := make([]bool, n)
	for i := range caseDocs {
		caseDocs[i] = tp.Bool(1, 2)
	}
	tasks := make([]*cacheTask, n)
	c.Config["tasks"] = n
	c.Config["kinds"] = kinds
	out, w := c.World(func(w *kernel.World) {
		for i := range tasks {
			i := i
			tasks[i] = &cacheTask{}
			w.Go(fmt.Sprintf("codec%d", i), func() {
				for r := 0; r < rounds; r++ {
					v := mkVal(kinds[i], i*10+r)
					got, err := roundTrip(v)
					if err != nil {
						tasks[i].fail("task %d round %d: %v", i, r, err)
						return
					}
					if !reflect.DeepEqual(got, v) {
						tasks[i].fail("task %d round %d: decoded %+v, encoded %+v", i, r, got, v)
						return
					}
					// a document written by someone else: keys whose capitalisation
					// differs from the field names (the decoder matches them
					// case-insensitively), a different spelling per task and round
					if caseDocs[i] {
						pCacheCaseFold.Hit()
						kx, ks := caseKey("x", i+r), caseKey("s", i*3+r)
						doc := nbtgen.Doc(&nbtgen.Node{Tag: nbtgen.Compound, Keys: []string{kx, ks}, Vals: []*nbtgen.Node{
							{Tag: nbtgen.Int, Num: uint64(uint32(1000 + i))}, {Tag: nbtgen.String, Str: "foreign"}}}, "", false)
						var a tA
						if err := nbt.Unmarshal(doc, &a); err != nil {
							tasks[i].fail("task %d: decoding a document with keys %q/%q: %v", i, kx, ks, err)
							return
						}
						if a.X != int32(1000+i) || a.S != "foreign" {
							tasks[i].fail("task %d: document with keys %q/%q decoded to %+v", i, kx, ks, a)
							return
						}
					}
				}
			})
		}
	})
	if c.Infra != "" {
		return
	}
	c.TaskPanics(w, "typecache")
	if c.Failed() {
		return
	}
	if out != kernel.OutDone {
		c.Fail("typecache.liveness", "codec", fmt.Sprint(out), "world did not finish: %v %v", out, w.DeadlockAt)
		return
	}
	for _, t := range tasks {
		if t.err != "" {
			c.Fail("typecache.isolation", "codec", "mismatch", "%s", t.err)
			return
		}
	}
	c.Fold(uint64(n), uint64(rounds))
}

// ---------------------------------------------------------------- B: bot.Conn

type connState struct {
	got      []pk.Packet // received by the bot side, in order
	peerGot  []pk.Packet
	readErr  error
	readDone bool
	err      string
}

//go:norace
func (s *connState) recv(p pk.Packet) {
	s.got = append(s.got, pk.Packet{ID: p.ID, Data: append([]byte(nil), p.Data...)})
}

//go:norace
func (s *connState) peerRecv(p pk.Packet) {
	s.peerGot = append(s.peerGot, pk.Packet{ID: p.ID, Data: append([]byte(nil), p.Data...)})
}

//go:norace
func (s *connState) done(err error) { s.readErr, s.readDone = err, true }

//go:norace
func (s *connState) fail(format string, a ...any) {
	if s.err == "" {
		s.err = fmt.Sprintf(format, a...)
	}
}

func scenarioB(c *harness.Ctx) {
	tp := c.T
	if warpConn == nil {
		pWarpUnavailable.Hit()
		return
	}
	linked := tp.Bool(1, 2)
	threshold := gen.Threshold(tp, false)
	mk := func(tag, n int) []pk.Packet {
		ps := make([]pk.Packet, n)
		for i := range ps {
			id := gen.PacketID(tp)
			ps[i] = pk.Packet{ID: id, Data: gen.Fill(tp, gen.PayloadLen(tp, threshold, id, 800), tag, i)}
		}
		return ps
	}
	in := mk(60, tp.Choose(12))   // peer -> bot
	outp := mk(61, tp.Choose(12)) // bot -> peer
	localClose := tp.Bool(1, 2)
	closeAfter := tp.Choose(len(in) + 1) // main closes after this many reads (local close)
	extraYields := tp.Choose(5)
	cfgAB, cfgBA := simnet.DrawCfgFor(tp, 4000), simnet.DrawCfgFor(tp, 4000)
	if localClose {
		pConnLocalClose.Hit()
	} else {
		pConnPeerClose.Hit()
	}
	c.Config["linked"] = linked
	c.Config["in"] = len(in)
	c.Config["out"] = len(outp)
	c.Config["local_close"] = localClose
	st := &connState{}
	out, w := c.World(func(w *kernel.World) {
		w.Drain = true
		link := simnet.Pipe(w, "bc", cfgAB, cfgBA)
		var qr, qw queue.Queue[pk.Packet]
		if linked {
			qr, qw = queue.NewLinkedQueue[pk.Packet](), queue.NewLinkedQueue[pk.Packet]()
		} else {
			qr, qw = queue.NewChannelQueue[pk.Packet](len(in)+4), queue.NewChannelQueue[pk.Packet](len(outp)+4)
		}
		w.Go("peer-write", func() {
			conn := mcnet.WrapConn(link.B)
			conn.SetThreshold(threshold)
			for _, p := range in {
				if err := conn.WritePacket(p); err != nil {
					return // the bot closed
				}
			}
			if !localClose {
				for i := 0; i < extraYields; i++ {
					w.Yield("harness.peer")
				}
				link.B.Close()
			}
		})
		w.Go("peer-read", func() {
			conn := mcnet.WrapConn(link.B)
			conn.SetThreshold(threshold)
			for {
				var p pk.Packet
				if err := conn.ReadPacket(&p); err != nil {
					return
				}
				st.peerRecv(p)
			}
		})
		w.Go("main", func() {
			mc := mcnet.WrapConn(link.A)
			mc.SetThreshold(threshold)
			wc := warpConn(mc, qr, qw)
			var swg simsync.WaitGroup
			swg.Add(1)
			w.Go("sender", func() {
				defer swg.Done()
				for i, p := range outp {
					if tp.Bool(1, 3) {
						w.Yield("harness.sender")
					}
					if err := wc.WritePacket(p); err != nil {
						st.fail("WritePacket %d refused although the queue has room: %v", i, err)
						return
					}
				}
			})
			for n := 0; ; n++ {
				if localClose && n == closeAfter {
					swg.Wait() // pushing after Close panics by the queues' contract
					wc.Close()
				}
				var p pk.Packet
				if err := wc.ReadPacket(&p); err != nil {
					st.done(err)
					break
				}
				st.recv(p)
				if n > len(in)+2 {
					st.fail("ReadPacket keeps succeeding: %d packets received, %d sent", n, len(in))
					break
				}
			}
			swg.Wait()
			if !localClose {
				wc.Close()
			}
		})
	})
	if c.Infra != "" {
		return
	}
	c.TaskPanics(w, "botconn")
	if c.Failed() {
		return
	}
	if out != kernel.OutDone {
		c.Fail("botconn.liveness", "world", fmt.Sprint(out), "world did not finish: %v %v", out, w.DeadlockAt)
		return
	}
	if st.err != "" {
		c.Fail("botconn", "api", "misbehaviour", "%s", st.err)
		return
	}
	if !st.readDone {
		c.Fail("botconn.liveness", "read", "never-ended", "the read loop of the bot side never ended")
		return
	}
	// exactly once, in order, a prefix of what was sent
	if len(st.got) > len(in) {
		c.Fail("botconn", "read", "duplicate", "%d packets received, %d sent", len(st.got), len(in))
		return
	}
	for i, g := range st.got {
		if g.ID != in[i].ID || !bytes.Equal(g.Data, in[i].Data) {
			c.Fail("botconn", "read", "order-or-content", "packet %d received as id=%d len=%d, sent id=%d len=%d", i, g.ID, len(g.Data), in[i].ID, len(in[i].Data))
			return
		}
	}
	if !localClose && len(st.got) != len(in) {
		c.Fail("botconn", "read", "lost", "the peer sent %d packets and then closed gracefully, only %d were delivered before the error %v", len(in), len(st.got), st.readErr)
		return
	}
	if len(st.peerGot) > len(outp) {
		c.Fail("botconn", "write", "duplicate", "%d packets arrived at the peer, %d sent", len(st.peerGot), len(outp))
		return
	}
	for i, g := range st.peerGot {
		if g.ID != outp[i].ID || !bytes.Equal(g.Data, outp[i].Data) {
			c.Fail("botconn", "write", "order-or-content", "packet %d arrived at the peer as id=%d len=%d, sent id=%d len=%d", i, g.ID, len(g.Data), outp[i].ID, len(outp[i].Data))
			return
		}
	}
	// no goroutine of warpConn may be left behind once both ends are closed
	// (recorded, not asserted: the statement does not promise that Close reaps
	// the two goroutines)
	reaped := true
	for _, f := range w.Final {
		if len(f) >= 9 && f[:9] == "client.go" {
			reaped = false
		}
	}
	if reaped {
		pConnReaped.Hit()
	}
	c.Fold(uint64(len(st.got)), uint64(len(st.peerGot)))
	_ = io.EOF
}

// ---------------------------------------------------------------- L: player list

type plClient struct {
	id           int
	disconnected bool
}

//go:norace
func (p *plClient) SendDisconnect(chat.Message) { p.disconnected = true }

//go:norace
func (p *plClient) wasDisconnected() bool { return p.disconnected }

// clientRegistry: clients that got into the list at some time (for the moderator).
type clientRegistry struct{ all []*plClient }

//go:norace
func (r *clientRegistry) add(c *plClient) { r.all = append(r.all, c) }

//go:norace
func (r *clientRegistry) pick(k int) *plClient {
	if len(r.all) == 0 {
		return nil
	}
	return r.all[k%len(r.all)]
}

type listState struct {
	maxSeen int
	err     string
}

//go:norace
func (s *listState) setFinal(f *[3]int, a, b, c int) { f[0], f[1], f[2] = a, b, c }

//go:norace
func (s *listState) observe(n, capacity int, what string) {
	if n > s.maxSeen {
		s.maxSeen = n
	}
	if n > capacity && s.err == "" {
		s.err = fmt.Sprintf("%s reports %d players, capacity is %d", what, n, capacity)
	}
}

//go:norace
func (s *listState) fail(format string, a ...any) {
	if s.err == "" {
		s.err = fmt.Sprintf(format, a...)
	}
}

func scenarioL(c *harness.Ctx) {
	tp := c.T
	capacity := tp.Choose(5)
	n := 1 + tp.Pick(2, 4, 4, 3, 2, 1, 1, 1, 1, 1, 1, 1)
	rounds := 1 + tp.Choose(3)
	c.Config["capacity"] = capacity
	c.Config["players"] = n
	style := make([]int, n) // bit 0: ClientLeft also after a refused join; bit 1: leaves twice; bit 2: joins without CheckPlayer; bit 3: joins again while listed
	kicks := tp.Choose(4)   // a moderator task removes listed clients at its own pace
	reg := &clientRegistry{}
	for i := range style {
		style[i] = tp.Choose(16)
	}
	st := &listState{}
	final := [3]int{-1, -1, -1}
	out, w := c.World(func(w *kernel.World) {
		pl := server.NewPlayerList(capacity)
		var players simsync.WaitGroup
		players.Add(n)
		ids := make([]uuid.UUID, n)
		for i := range ids {
			ids[i] = uuid.UUID{byte(i + 1)}
		}
		for i := 0; i < n; i++ {
			i := i
			w.Go(fmt.Sprintf("player%d", i), func() {
				defer players.Done()
				for r := 0; r < rounds; r++ {
					ok := true
					if style[i]&4 == 0 {
						ok, _ = pl.CheckPlayer(fmt.Sprintf("p%d", i), ids[i], 767)
					}
					if !ok {
						pListFull.Hit()
						w.Yield("harness.player")
						continue
					}
					cl := &plClient{id: i}
					pl.ClientJoin(cl, server.PlayerSample{Name: fmt.Sprintf("p%d", i), ID: ids[i]})
					if cl.wasDisconnected() {
						pListFull.Hit()
						if style[i]&1 != 0 {
							// the usual `ClientJoin(c, ...); defer ClientLeft(c)` shape: the
							// clean-up also runs for a client that was turned away
							pListLeftAfterRefusal.Hit()
							pl.ClientLeft(cl)
						}
						continue
					}
					st.observe(pl.Len(), capacity, "Len() after a successful join")
					reg.add(cl)
					for k := tp.Choose(3); k > 0; k-- {
						w.Yield("harness.player")
					}
					if style[i]&8 != 0 {
						// the same client announces itself again (e.g. to refresh its
						// sample) - possibly while a moderator is kicking it
						pListRejoin.Hit()
						pl.ClientJoin(cl, server.PlayerSample{Name: fmt.Sprintf("p%d", i), ID: ids[i]})
						st.observe(pl.Len(), capacity, "Len() after a repeated join of a listed client")
						w.Yield("harness.player")
					}
					pl.ClientLeft(cl)
					if style[i]&2 != 0 {
						// leaving twice (connection clean-up and an explicit kick) is harmless
						pl.ClientLeft(cl)
					}
				}
			})
		}
		if kicks > 0 {
			w.Go("moderator", func() {
				for k := 0; k < kicks*2; k++ {
					if cl := reg.pick(tp.Choose(1 << 16)); cl != nil {
						pListKick.Hit()
						pl.ClientLeft(cl)
					}
					w.Yield("harness.moderator")
				}
			})
		}
		w.Go("closing-time", func() {
			players.Wait()
			cnt := 0
			pl.Range(func(server.PlayerListClient, server.PlayerSample) { cnt++ })
			st.setFinal(&final, pl.Len(), pl.OnlinePlayer(), cnt)
			// everybody has left: a newcomer must get in (unless the list has no room at all)
			late, lateID := fmt.Sprintf("p%d", n), uuid.UUID{byte(n + 1)}
			ok, _ := pl.CheckPlayer(late, lateID, 767)
			cl := &plClient{id: n}
			pl.ClientJoin(cl, server.PlayerSample{Name: late, ID: lateID})
			// (recorded, not asserted: the statement bounds the list from above only)
			if capacity > 0 && ok && !cl.wasDisconnected() {
				pListLateAdmitted.Hit()
			}
			st.observe(pl.Len(), capacity, "Len() after the late join")
		})
		w.Go("observer", func() {
			for k := 0; k < 2+n*rounds; k++ {
				st.observe(pl.Len(), capacity, "Len()")
				st.observe(pl.OnlinePlayer(), capacity, "OnlinePlayer()")
				s := pl.PlayerSamples()
				st.observe(len(s), capacity, "PlayerSamples()")
				for _, e := range s {
					if e.ID[0] == 0 || int(e.ID[0]) > n+1 || e.Name != fmt.Sprintf("p%d", int(e.ID[0])-1) {
						st.fail("PlayerSamples() contains %q/%v which never joined", e.Name, e.ID)
					}
				}
				cnt := 0
				pl.Range(func(server.PlayerListClient, server.PlayerSample) { cnt++ })
				st.observe(cnt, capacity, "Range()")
				w.Yield("harness.observer")
			}
		})
	})
	if c.Infra != "" {
		return
	}
	c.TaskPanics(w, "playerlist")
	if c.Failed() {
		return
	}
	if out != kernel.OutDone {
		c.Fail("playerlist.liveness", "world", fmt.Sprint(out), "world did not finish: %v %v", out, w.DeadlockAt)
		return
	}
	if st.maxSeen == capacity && capacity > 0 {
		pListAtCap.Hit()
	}
	if st.err != "" {
		c.Fail("playerlist.capacity", "list", "over-capacity", "%s (capacity %d, %d concurrent players)", st.err, capacity, n)
		return
	}
	if final == [3]int{0, 0, 0} {
		pListEmptyAtEnd.Hit() // recorded, not asserted (see above)
	}
	c.Fold(uint64(st.maxSeen))
}

var pCacheCaseFold = simrt.NewProbe("typecache.foreign.document.with.case-variant.keys")

var pWarpUnavailable = simrt.NewProbe("botconn.warpConn.entry.point.not.available(scenario.not.run)")

var pListLeftAfterRefusal = simrt.NewProbe("playerlist.ClientLeft.after.a.refused.join")

var pListLateAdmitted = simrt.NewProbe("playerlist.newcomer.admitted.after.everybody.left")
var pListEmptyAtEnd = simrt.NewProbe("playerlist.empty.after.everybody.left(Len,OnlinePlayer,Range)")

var pListRejoin = simrt.NewProbe("playerlist.ClientJoin.again.by.a.listed.client")
var pListKick = simrt.NewProbe("playerlist.ClientLeft.by.another.task(moderator)")
