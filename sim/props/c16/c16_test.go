package c16

import (
	"bytes"
	"encoding/binary"
	"fmt"
	"io"
	"net"
	"strings"
	"testing"
	"time"

	mcnet "github.com/Tnze/go-mc/net"

	"verifsim/harness"
	"verifsim/kernel"
	"verifsim/simnet"
	"verifsim/simrt"
	"verifsim/tape"
)

var (
	pMaxPayload   = simrt.NewProbe("rcon.payload.at.limit(4086)")
	pEmptyPayload = simrt.NewProbe("rcon.payload.empty")
	pNulPayload   = simrt.NewProbe("rcon.payload.with.NUL.or.non-UTF8")
	pLoginOK      = simrt.NewProbe("login.password.equal")
	pLoginBad     = simrt.NewProbe("login.password.differs")
	pWrongID      = simrt.NewProbe("byzantine.response.under.other.id")
	pWrongType    = simrt.NewProbe("byzantine.response.with.type!=0")
	pCutMid       = simrt.NewProbe("byzantine.cut.mid.frame")
	pLenReject    = simrt.NewProbe("declared.length.must.reject")
	pLenAccept    = simrt.NewProbe("declared.length.must.accept")
	pIdle         = simrt.NewProbe("login.idle.time.before.a.command")
	pPipelined    = simrt.NewProbe("login.commands.pipelined")
	pFailedWrite  = simrt.NewProbe("codec.one.write.failed.transiently.then.connection.reused")
	pMultiConn    = simrt.NewProbe("codec.several.connections.in.one.world")
)

// refFrame is the protocol's layout: LE int32 length = 10+len(payload), id,
// type, payload, 0x00 0x00.
func refFrame(id, typ int32, payload string) []byte {
	b := binary.LittleEndian.AppendUint32(nil, uint32(10+len(payload)))
	b = binary.LittleEndian.AppendUint32(b, uint32(id))
	b = binary.LittleEndian.AppendUint32(b, uint32(typ))
	b = append(b, payload...)
	return append(b, 0, 0)
}

func payload(tp *tape.Tape) string {
	n := 0
	switch tp.Pick(2, 2, 1, 1, 5, 2) {
	case 0:
		n = 0
		pEmptyPayload.Hit()
	case 1:
		n = 1
	case 2:
		n = 4085
	case 3:
		n = 4086
		pMaxPayload.Hit()
	case 4:
		n = tp.Choose(64)
	default:
		n = tp.Choose(4087)
	}
	b := tp.Bytes(n)
	if n > 0 && tp.Bool(1, 3) {
		b[tp.Choose(n)] = 0
		b[tp.Choose(n)] = 0xff
		pNulPayload.Hit()
	}
	return string(b)
}

func id32(tp *tape.Tape) int32 {
	switch tp.Choose(6) {
	case 0:
		return 0
	case 1:
		return -1
	case 2:
		return -0x80000000
	case 3:
		return 0x7fffffff
	}
	return int32(uint32(tp.U64()))
}

type triple struct {
	id, typ int32
	payload string
}

type codecConn struct {
	failPkt int // 1-based index of the packet whose first Write call fails once; 0 = none
	failed  int
	pkts    []triple
	cfg     simnet.LinkCfg
	link    *simnet.Link
	got     []triple
	rerr    error
}

func scenarioCodec(c *harness.Ctx) {
	tp := c.T
	nConn := 1 + tp.Pick(5, 2, 1)
	if nConn > 1 {
		pMultiConn.Hit()
	}
	conns := make([]*codecConn, nConn)
	for k := range conns {
		cc := &codecConn{failed: -1}
		n := 1 + tp.Choose(20)
		if tp.Bool(2, 3) {
			n = 1 + tp.Choose(4)
		}
		total := 0
		for i := 0; i < n; i++ {
			typ := []int32{0, 2, 3}[tp.Choose(3)]
			if tp.Bool(1, 5) {
				typ = id32(tp)
			}
			cc.pkts = append(cc.pkts, triple{id32(tp), typ, payload(tp)})
			total += len(cc.pkts[i].payload) + 14
		}
		cc.cfg = simnet.DrawCfgFor(tp, total)
		if tp.Bool(1, 5) {
			// the first Write call issued by one WritePacket fails once (timeout,
			// nothing of that frame is accepted); the application carries on with
			// the next packet on the same connection
			cc.failPkt = 1 + tp.Choose(n)
		}
		conns[k] = cc
	}
	c.Config["connections"] = nConn
	c.Config["packets"] = len(conns[0].pkts)
	out, w := c.World(func(w *kernel.World) {
		for k, cc := range conns {
			cc := cc
			cc.link = simnet.Pipe(w, fmt.Sprintf("rcon%d", k), cc.cfg, simnet.LinkCfg{CutAt: -1, StallAt: -1})
			w.Go(fmt.Sprintf("writer%d", k), func() {
				wc := &mcnet.RCONConn{Conn: cc.link.A}
				for i, p := range cc.pkts {
					if cc.failPkt == i+1 {
						cc.link.A.FailNextWrite()
					}
					if err := wc.WritePacket(p.id, p.typ, p.payload); err != nil {
						if cc.failPkt == i+1 {
							cc.failed = i // told to the application: not sent
							continue
						}
						c.Fail("rcon.codec", "write", "error", "WritePacket %d failed: %v", i, err)
						return
					}
					if cc.failPkt == i+1 {
						c.Fail("rcon.codec", "write", "swallowed-error", "WritePacket %d returned nil although the connection's Write failed", i)
						return
					}
				}
				cc.link.A.CloseWrite()
			})
			w.Go(fmt.Sprintf("reader%d", k), func() {
				rc := &mcnet.RCONConn{Conn: cc.link.B}
				want := len(cc.pkts)
				if cc.failPkt > 0 {
					want--
				}
				for i := 0; i < want; i++ {
					id, typ, p, err := rc.ReadPacket()
					if err != nil {
						cc.rerr = err
						return
					}
					cc.got = append(cc.got, triple{id, typ, p})
				}
			})
		}
	})
	if c.Infra != "" {
		return
	}
	c.TaskPanics(w, "codec")
	if c.Failed() {
		return
	}
	if out != kernel.OutDone {
		c.Fail("rcon.codec", "liveness", fmt.Sprint(out), "world did not finish: %v %v", out, w.DeadlockAt)
		return
	}
	for k, cc := range conns {
		pkts, got, link := cc.pkts, cc.got, cc.link
		if cc.failPkt > 0 {
			if cc.failed < 0 {
				c.Infra = "transient write failure configured but never hit"
				return
			}
			pFailedWrite.Hit()
			pkts = append(append([]triple(nil), pkts[:cc.failed]...), pkts[cc.failed+1:]...)
		}
		n := len(pkts)
		if cc.rerr != nil {
			c.Fail("rcon.codec", "read", "error", "connection %d of %d: ReadPacket %d of %d failed on a stream of valid frames: %v (packet whose write failed: %d)", k, nConn, len(got), n, cc.rerr, cc.failPkt)
			return
		}
		for i := range pkts {
			if got[i] != pkts[i] {
				c.Fail("rcon.codec", "read", "mismatch", "connection %d of %d: packet %d read back as id=%d type=%d len=%d, written id=%d type=%d len=%d", k, nConn, i, got[i].id, got[i].typ, len(got[i].payload), pkts[i].id, pkts[i].typ, len(pkts[i].payload))
				return
			}
		}
		var want []byte
		for _, p := range pkts {
			want = append(want, refFrame(p.id, p.typ, p.payload)...)
		}
		wire := link.TapAB()
		c.FoldBytes(wire)
		if !bytes.Equal(wire, want) {
			i := 0
			for i < len(wire) && i < len(want) && wire[i] == want[i] {
				i++
			}
			c.Fail("rcon.codec", "write", "layout", "connection %d of %d: bytes on the wire differ from the protocol layout (LE length=10+len, id, type, payload, 00 00) at offset %d (wire %d bytes, reference %d bytes)", k, nConn, i, len(wire), len(want))
			return
		}
		if link.UnreadAB() != 0 {
			c.Fail("rcon.codec", "read", "residual", "%d bytes left unread after reading %d frames", link.UnreadAB(), n)
			return
		}
	}
}

func scenarioLengths(c *harness.Ctx) {
	tp := c.T
	// the upper limit is the library's own exported constant (the statement says
	// "above the limit"); the minimum of 10 is structural (id + type + two zeros)
	const limit = int32(mcnet.MaxRCONPackageSize)
	lens := []int32{-0x80000000, -1, 0, 1, 9, 10, 11, 12, limit - 1, limit, limit + 1, limit + 904, 0x7fffffff, 65536}
	L := lens[tp.Choose(len(lens))]
	if tp.Bool(1, 4) {
		L = int32(tp.Choose(int(limit) + 104))
	}
	if tp.Bool(1, 4) {
		// a plausible small length with something in the upper bytes (a decoder
		// that drops or misplaces a byte reads it as a small frame)
		small := int32(10 + tp.Choose(int(limit)-9))
		switch tp.Choose(4) {
		case 0:
			L = small | int32(1+tp.Choose(127))<<24
		case 1:
			L = small | int32(uint32(0x80+tp.Choose(128))<<24)
		case 2:
			L = small&0xffff | int32(1+tp.Choose(255))<<16
		default:
			L = small | int32(1+tp.Choose(127))<<24 | int32(tp.Choose(256))<<16
		}
	}
	mustReject := L < 10 || L > limit
	if mustReject {
		pLenReject.Hit()
	} else {
		pLenAccept.Hit()
	}
	id, typ := id32(tp), int32(tp.Choose(4))
	var body []byte
	var pl []byte
	if !mustReject {
		pl = tp.Bytes(int(L) - 10)
		body = binary.LittleEndian.AppendUint32(nil, uint32(id))
		body = binary.LittleEndian.AppendUint32(body, uint32(typ))
		body = append(body, pl...)
		body = append(body, 0, 0)
	} else {
		n := 64
		if L > 0 && L < 6000 {
			n = int(L)
		}
		body = tp.Bytes(n)
	}
	frame := binary.LittleEndian.AppendUint32(nil, uint32(L))
	frame = append(frame, body...)
	cfg := simnet.DrawCfgFor(tp, len(frame))
	c.Config["declared_length"] = L
	c.Fold(uint64(uint32(L)))
	var gid, gtyp int32
	var gp string
	var gerr error
	returned := false
	out, w := c.World(func(w *kernel.World) {
		link := simnet.Pipe(w, "rcon", cfg, simnet.LinkCfg{CutAt: -1, StallAt: -1})
		w.GoDaemon("byzantine", func() {
			link.A.Write(frame)
			link.A.Write(refFrame(1, 0, "next"))
		})
		w.Go("victim", func() {
			rc := &mcnet.RCONConn{Conn: link.B}
			gid, gtyp, gp, gerr = rc.ReadPacket()
			returned = true
		})
	})
	if c.Infra != "" {
		return
	}
	c.TaskPanics(w, "lengths")
	if c.Failed() {
		return
	}
	if !returned {
		c.Fail("rcon.length", "read", "hang", "ReadPacket did not return for declared length %d: %v %v", L, out, w.DeadlockAt)
		return
	}
	if mustReject {
		if gerr == nil {
			side := "below the minimum of 10"
			if L > limit {
				side = fmt.Sprintf("above the limit of %d", limit)
			}
			c.Fail("rcon.length", "read", "accepted-"+strings.Fields(side)[0], "frame with declared length %d (%s) was accepted: id=%d type=%d payload %d bytes", L, side, gid, gtyp, len(gp))
		}
		return
	}
	if gerr != nil {
		c.Fail("rcon.length", "read", "rejected-valid", "frame with declared length %d (within 10..%d) was rejected: %v", L, limit, gerr)
		return
	}
	if gid != id || gtyp != typ || gp != string(pl) {
		c.Fail("rcon.length", "read", "mismatch", "frame with declared length %d decoded to id=%d type=%d payload %d bytes; sent id=%d type=%d payload %d bytes", L, gid, gtyp, len(gp), id, typ, len(pl))
	}
}

func passwords(tp *tape.Tape) (server, client string) {
	base := []string{"", "p", "hunter2", "PassWord", "pa\x00ss", "\xff\xfe", "a-much-longer-password-0123456789"}[tp.Choose(7)]
	server = base
	// passwords are opaque byte strings: white space and line endings count
	ws := []string{"\n", "\r\n", "\r", " ", "\t", "\n\n"}
	if tp.Bool(1, 5) {
		pPwWhitespace.Hit()
		if tp.Bool(1, 4) {
			server = ws[tp.Choose(len(ws))] + server
		} else {
			server += ws[tp.Choose(len(ws))]
		}
		if tp.Bool(1, 2) {
			// the same password without (or with other) white space must be refused
			switch tp.Choose(4) {
			case 0:
				client = strings.TrimRight(server, "\r\n")
			case 1:
				client = strings.TrimSpace(server)
			case 2:
				client = strings.TrimRight(server, "\r\n \t") + ws[tp.Choose(len(ws))]
			default:
				client = strings.TrimLeft(server, "\r\n \t")
			}
			if client != server {
				return
			}
		}
	} else if tp.Bool(1, 8) {
		pPwWhitespace.Hit()
		client = server + ws[tp.Choose(len(ws))]
		return
	}
	if tp.Bool(1, 10) {
		// one password is a prefix of the other and the lengths differ by a "round"
		// amount (a length folded into a byte or a 16-bit word must not make them equal)
		pPwLongPrefix.Hit()
		extra := []int{255, 256, 257, 512, 1024, 65536 % 4000, 3840}[tp.Choose(7)]
		long := server + string(tp.Bytes(extra))
		if tp.Bool(1, 2) {
			client = long
		} else {
			client, server = server, long
		}
		return
	}
	if tp.Bool(1, 12) {
		// long passwords of equal length that differ in a single late byte (a
		// comparison over a fixed-size prefix, block or digest input must see it)
		pPwLateByte.Hit()
		n := 65 + tp.Choose(200)
		b := tp.Bytes(n)
		server = string(b)
		at := []int{n - 1, 64, 65, n / 2, 127 % n, 128 % n, 63}[tp.Choose(7)]
		c := append([]byte(nil), b...)
		c[at] ^= byte(1 << uint(tp.Choose(8)))
		client = string(c)
		return
	}
	if tp.Bool(1, 12) {
		// same length, the same bit flipped in 256/mask bytes: the byte-wise
		// differences cancel under XOR and add up to exactly 256
		pPwBalanced.Hit()
		server = "a-much-longer-password-0123456789"
		mask := []byte{0x80, 0x40, 0x20, 0x10}[tp.Choose(4)]
		b := []byte(server)
		for i := 0; i < 256/int(mask); i++ {
			b[i] ^= mask
		}
		client = string(b)
		return
	}
	switch tp.Pick(4, 1, 1, 1, 1, 1, 1, 1, 1) {
	case 7:
		// two characters swapped (same multiset of bytes)
		b := []byte(server)
		if len(b) >= 2 && b[0] != b[len(b)-1] {
			b[0], b[len(b)-1] = b[len(b)-1], b[0]
			client = string(b)
		} else {
			client = server + "y"
		}
	case 8:
		// same length, an even number of bytes changed by the same mask
		b := []byte(server)
		if len(b) >= 2 {
			b[0] ^= 0x20
			b[1] ^= 0x20
			client = string(b)
		} else {
			client = server + "zz"
		}
	case 0:
		client = server
	case 1:
		client = server + "x"
	case 2:
		if len(server) > 0 {
			client = server[:len(server)-1]
		} else {
			client = "x"
		}
	case 3:
		client = strings.ToUpper(server)
		if client == server {
			client = strings.ToLower(server)
		}
		if client == server {
			client = server + " "
		}
	case 4:
		client = ""
		if server == "" {
			client = "\x00"
		}
	case 5:
		client = server + "\x00"
	default:
		client = string(tp.Bytes(1 + tp.Choose(12)))
		if client == server {
			client += "!"
		}
	}
	return
}

// scenarioLogin: the real DialRCON against the real server-side calls.
func scenarioLogin(c *harness.Ctx) {
	tp := c.T
	simrt.SetRandTape(tp)
	pwS, pwC := passwords(tp)
	match := pwS == pwC
	if match {
		pLoginOK.Hit()
	} else {
		pLoginBad.Hit()
	}
	nCmd := tp.Choose(5)
	cmds := make([]string, nCmd)
	resps := make([]string, nCmd)
	total := 100
	for i := range cmds {
		cmds[i], resps[i] = payload(tp), payload(tp)
		total += len(cmds[i]) + len(resps[i])
	}
	cfgAB, cfgBA := simnet.DrawCfgFor(tp, total), simnet.DrawCfgFor(tp, total)
	// pipelined: the client issues all commands before it reads any response
	pipelined := nCmd >= 2 && tp.Bool(1, 3)
	if pipelined {
		pPipelined.Hit()
		cfgAB.Window, cfgBA.Window = 0, 0 // or the two single-threaded ends dead-lock themselves
	}
	idle := make([]time.Duration, nCmd)
	for i := range idle {
		if tp.Bool(1, 4) {
			idle[i] = time.Duration(1+tp.Choose(600)) * time.Second
		}
	}
	c.Config["match"] = match
	c.Config["commands"] = nCmd
	c.Config["pipelined"] = pipelined
	var (
		cliErr, srvErr   error
		srvDone, cliDone bool
		gotCmds          []string
		gotResps         []string
		cmdErr           error
	)
	out, w := c.World(func(w *kernel.World) {
		simnet.Dial = func(network, address string) (net.Conn, error) {
			link := simnet.Pipe(w, "rcon", cfgAB, cfgBA)
			w.Go("server", func() {
				sc := mcnet.RCONServerConn(&mcnet.RCONConn{Conn: link.B})
				srvErr = sc.AcceptLogin(pwS)
				if srvErr != nil {
					srvDone = true
					sc.Close()
					return
				}
				for i := 0; i < nCmd; i++ {
					cmd, err := sc.AcceptCmd()
					if err != nil {
						cmdErr = fmt.Errorf("AcceptCmd %d: %w", i, err)
						break
					}
					gotCmds = append(gotCmds, cmd)
					if err := sc.RespCmd(resps[i]); err != nil {
						cmdErr = fmt.Errorf("RespCmd %d: %w", i, err)
						break
					}
				}
				srvDone = true
			})
			return link.A, nil
		}
		w.Go("client", func() {
			cli, err := mcnet.DialRCON("sim:25575", pwC)
			cliErr = err
			if err != nil {
				cliDone = true
				return
			}
			if pipelined {
				for i := 0; i < nCmd; i++ {
					if err := cli.Cmd(cmds[i]); err != nil {
						cmdErr = fmt.Errorf("Cmd %d: %w", i, err)
						break
					}
				}
				for i := 0; i < nCmd && cmdErr == nil; i++ {
					r, err := cli.Resp()
					if err != nil {
						cmdErr = fmt.Errorf("Resp %d: %w", i, err)
						break
					}
					gotResps = append(gotResps, r)
				}
				cliDone = true
				return
			}
			for i := 0; i < nCmd; i++ {
				if idle[i] > 0 {
					// an operator types the next command minutes later
					pIdle.Hit()
					w.Sleep(idle[i])
				}
				if err := cli.Cmd(cmds[i]); err != nil {
					cmdErr = fmt.Errorf("Cmd %d: %w", i, err)
					break
				}
				r, err := cli.Resp()
				if err != nil {
					cmdErr = fmt.Errorf("Resp %d: %w", i, err)
					break
				}
				gotResps = append(gotResps, r)
			}
			cliDone = true
		})
	})
	simnet.Dial = nil
	if c.Infra != "" {
		return
	}
	c.TaskPanics(w, "login")
	if c.Failed() {
		return
	}
	if out != kernel.OutDone || !srvDone || !cliDone {
		c.Fail("rcon.login", "liveness", fmt.Sprint(out), "login/command exchange did not finish (client done=%v server done=%v): %v %v", cliDone, srvDone, out, w.DeadlockAt)
		return
	}
	c.Fold(uint64(len(gotCmds)), uint64(len(gotResps)))
	if match {
		if cliErr != nil {
			c.Fail("rcon.login", "client", "rejected-correct-password", "client login failed although the passwords are equal (%q): %v", pwS, cliErr)
			return
		}
		if srvErr != nil {
			c.Fail("rcon.login", "server", "rejected-correct-password", "server reported rejection although the passwords are equal (%q): %v", pwS, srvErr)
			return
		}
	} else {
		if cliErr == nil {
			c.Fail("rcon.login", "client", "accepted-wrong-password", "client login succeeded with password %q against server password %q", pwC, pwS)
			return
		}
		if srvErr == nil {
			c.Fail("rcon.login", "server", "accepted-wrong-password", "server accepted password %q although its password is %q", pwC, pwS)
			return
		}
		return
	}
	if cmdErr != nil {
		c.Fail("rcon.command", "exchange", "error", "after a successful login: %v", cmdErr)
		return
	}
	for i := range cmds {
		if gotCmds[i] != cmds[i] {
			c.Fail("rcon.command", "server", "command-altered", "command %d reached the server altered (%d bytes sent, %d received)", i, len(cmds[i]), len(gotCmds[i]))
			return
		}
		if gotResps[i] != resps[i] {
			c.Fail("rcon.command", "client", "response-altered", "response %d reached the client altered (%d bytes sent, %d received)", i, len(resps[i]), len(gotResps[i]))
			return
		}
	}
}

// scenarioByzantine: a stub server answers the real client's command under a
// different request id, with a wrong type, or cuts the link mid-frame.
func scenarioByzantine(c *harness.Ctx) {
	tp := c.T
	simrt.SetRandTape(tp)
	variant := tp.Choose(3)
	resp := payload(tp)
	if len(resp) > 200 {
		resp = resp[:200]
	}
	cfgAB, cfgBA := simnet.DrawCfgFor(tp, 400), simnet.DrawCfgFor(tp, 400)
	var frameOut []byte
	var cliErr, respErr error
	respReturned := false
	var gotResp string
	c.Config["variant"] = []string{"other-id", "wrong-type", "cut-mid-frame"}[variant]
	out, w := c.World(func(w *kernel.World) {
		simnet.Dial = func(network, address string) (net.Conn, error) {
			var link *simnet.Link
			if variant == 2 {
				pCutMid.Hit()
				// the cut lands inside the response frame that follows the 14-byte login answer
				cfgBA.CutAt = 14 + int64(1+tp.Choose(13+len(resp)))
				cfgBA.CutErr = []error{io.EOF, simnet.ErrReset}[tp.Choose(2)]
			}
			link = simnet.Pipe(w, "rcon", cfgAB, cfgBA)
			w.GoDaemon("byz-server", func() {
				sc := &mcnet.RCONConn{Conn: link.B}
				id, _, _, err := sc.ReadPacket() // login
				if err != nil {
					return
				}
				link.B.Write(refFrame(id, 2, ""))
				rid, _, _, err := sc.ReadPacket() // command
				if err != nil {
					return
				}
				switch variant {
				case 0:
					pWrongID.Hit()
					other := rid + 1 + int32(tp.Choose(5))
					if tp.Bool(1, 3) {
						other = -1
					}
					frameOut = refFrame(other, 0, resp)
				case 1:
					pWrongType.Hit()
					frameOut = refFrame(rid, []int32{2, 3, 1, -1, 256, 0x10000, -256, -0x80000000}[tp.Choose(8)], resp)
				default:
					frameOut = refFrame(rid, 0, resp)
				}
				link.B.Write(frameOut)
			})
			return link.A, nil
		}
		w.Go("client", func() {
			cli, err := mcnet.DialRCON("sim:25575", "pw")
			cliErr = err
			if err != nil {
				return
			}
			if err := cli.Cmd("list"); err != nil {
				respErr = err
				respReturned = true
				return
			}
			gotResp, respErr = cli.Resp()
			respReturned = true
		})
	})
	simnet.Dial = nil
	if c.Infra != "" {
		return
	}
	c.TaskPanics(w, "byzantine")
	if c.Failed() {
		return
	}
	if cliErr != nil {
		c.Fail("rcon.login", "client", "rejected-echoed-id", "client login failed although the server echoed its request id: %v", cliErr)
		return
	}
	if !respReturned {
		c.Fail("rcon.response", "client", "hang", "Resp did not return (variant %v): %v %v", c.Config["variant"], out, w.DeadlockAt)
		return
	}
	if respErr == nil {
		if variant == 1 {
			// The statement pairs responses by request id only ("accepted only under
			// the request id in use"); that go-mc also insists on type 0 is
			// recorded, not asserted.
			pWrongTypeAccepted.Hit()
			return
		}
		c.Fail("rcon.response", "client", c.Config["variant"].(string), "Resp accepted a response (%d bytes) that was sent %v", len(gotResp), c.Config["variant"])
		return
	}
	if variant == 1 {
		pWrongTypeRefused.Hit()
	}
}

// scenarioForeignClient: a protocol-conformant client that is not go-mc's
// (fresh request id per command) talks to the real server-side calls; every
// answer on the wire must carry the id of the request it answers.
func scenarioForeignClient(c *harness.Ctx) {
	tp := c.T
	pw := []string{"", "pw", "secret\x00x"}[tp.Choose(3)]
	good := tp.Bool(3, 4)
	sent := pw
	if !good {
		sent = pw + "?"
	}
	nCmd := 1 + tp.Choose(4)
	ids := make([]int32, nCmd+1)
	for i := range ids {
		// (any int32 is a legal request id for the server, also -1: such a client
		// cannot tell acceptance from refusal, the server still has to)
		ids[i] = id32(tp)
		if ids[i] == -1 {
			pForeignMinusOne.Hit()
		}
	}
	cmds, resps := make([]string, nCmd), make([]string, nCmd)
	for i := range cmds {
		cmds[i], resps[i] = payload(tp), payload(tp)
		if len(cmds[i]) > 300 {
			cmds[i] = cmds[i][:300]
		}
		if len(resps[i]) > 300 {
			resps[i] = resps[i][:300]
		}
	}
	cfgAB, cfgBA := simnet.DrawCfgFor(tp, 2000), simnet.DrawCfgFor(tp, 2000)
	var link *simnet.Link
	var srvErr error
	var gotCmds []string
	out, w := c.World(func(w *kernel.World) {
		link = simnet.Pipe(w, "rcon", cfgAB, cfgBA)
		w.Go("foreign-client", func() {
			rc := &mcnet.RCONConn{Conn: link.A} // only used as a frame reader
			link.A.Write(refFrame(ids[0], 3, sent))
			if _, _, _, err := rc.ReadPacket(); err != nil || !good {
				return
			}
			for i := 0; i < nCmd; i++ {
				link.A.Write(refFrame(ids[i+1], 2, cmds[i]))
				if _, _, _, err := rc.ReadPacket(); err != nil {
					return
				}
			}
		})
		w.Go("server", func() {
			sc := &mcnet.RCONConn{Conn: link.B}
			if srvErr = sc.AcceptLogin(pw); srvErr != nil {
				return
			}
			for i := 0; i < nCmd; i++ {
				cmd, err := sc.AcceptCmd()
				if err != nil {
					srvErr = err
					return
				}
				gotCmds = append(gotCmds, cmd)
				if err := sc.RespCmd(resps[i]); err != nil {
					srvErr = err
					return
				}
			}
		})
	})
	if c.Infra != "" {
		return
	}
	c.TaskPanics(w, "foreign")
	if c.Failed() {
		return
	}
	if out != kernel.OutDone {
		c.Fail("rcon.login", "liveness", fmt.Sprint(out), "exchange with a conformant foreign client did not finish: %v %v", out, w.DeadlockAt)
		return
	}
	wire := link.TapBA()
	c.FoldBytes(wire)
	var want []byte
	if good {
		want = refFrame(ids[0], 2, "")
		for i := range cmds {
			want = append(want, refFrame(ids[i+1], 0, resps[i])...)
		}
		if srvErr != nil {
			c.Fail("rcon.login", "server", "rejected-correct-password", "server failed with a conformant client and the right password: %v", srvErr)
			return
		}
		for i := range cmds {
			if gotCmds[i] != cmds[i] {
				c.Fail("rcon.command", "server", "command-altered", "command %d reached the server altered", i)
				return
			}
		}
	} else {
		want = refFrame(-1, 2, "")
		if srvErr == nil {
			c.Fail("rcon.login", "server", "accepted-wrong-password", "server accepted password %q although its password is %q", sent, pw)
			return
		}
	}
	if !bytes.Equal(wire, want) {
		i := 0
		for i < len(wire) && i < len(want) && wire[i] == want[i] {
			i++
		}
		c.Fail("rcon.command", "server", "answer-frames", "the server's answers on the wire differ from the protocol (login answer echoes the id or -1 with type 2; each response carries the id of its command, type 0) at offset %d", i)
	}
}

var prop = &harness.Property{
	ID: "C16",
	Scenarios: []harness.Scenario{
		{Name: "codec", Weight: 4, Run: scenarioCodec},
		{Name: "lengths", Weight: 2, Run: scenarioLengths},
		{Name: "login", Weight: 4, Run: scenarioLogin},
		{Name: "byzantine", Weight: 2, Run: scenarioByzantine},
		{Name: "foreign-client", Weight: 2, Run: scenarioForeignClient},
	},
	Real:        []string{"net.DialRCON (net.Dial and rand.Int31 woven to the simulator)", "RCONConn.ReadPacket/WritePacket/Cmd/Resp/AcceptLogin/AcceptCmd/RespCmd"},
	Stub:        []string{"simulated byte-stream link", "byzantine peer sending forged lengths / ids / types, cutting mid-frame", "listener (the dial lands on a harness task that wraps the server end like RCONListener.Accept does)"},
	NotRun:      []string{"net.ListenRCON / real TCP"},
	Rule:        "one seeded world per run: codec (1-20 frames, ids over int32, payload 0..4086 incl. NUL/non-UTF-8, link segmentation/coalescing), declared lengths around both bounds, login with password pairs (equal/prefix/case/empty/NUL) followed by 0-4 command/response pairs, byzantine server variants. Non-trivial = more context switches than tasks; distinct = schedule hash",
	Assumptions: []string{"the reference layout (LE length = 10+len(payload), id, type, payload, 00 00) is the protocol", "reliable ordered stream"},
}

func TestWorker(t *testing.T) { harness.Main(t, prop) }

var pPwWhitespace = simrt.NewProbe("login.password.with.white.space.or.line.ending")

var pForeignMinusOne = simrt.NewProbe("foreign.client.request.id.-1")

var pWrongTypeRefused = simrt.NewProbe("byzantine.response.type!=0.refused.by.Resp(recorded,not.asserted)")
var pWrongTypeAccepted = simrt.NewProbe("byzantine.response.type!=0.accepted.by.Resp(recorded,not.asserted)")

var pPwLongPrefix = simrt.NewProbe("login.password.prefix.pairs.with.length.difference.255..3840")

var pPwBalanced = simrt.NewProbe("login.password.pairs.whose.byte.differences.cancel(xor)/sum.to.256(add)")

var pPwLateByte = simrt.NewProbe("login.long.passwords.differing.in.one.late.byte")
