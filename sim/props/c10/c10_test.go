package c10

import (
	"bytes"
	"crypto/aes"
	"crypto/cipher"
	"fmt"
	"io"
	"testing"

	mcnet "github.com/Tnze/go-mc/net"
	"github.com/Tnze/go-mc/net/CFB8"
	pk "github.com/Tnze/go-mc/net/packet"

	"verifsim/gen"
	"verifsim/harness"
	"verifsim/kernel"
	ref "verifsim/oracle/cfb8"
	"verifsim/oracle/frame"
	"verifsim/simnet"
	"verifsim/simrt"
	"verifsim/simsync"
	"verifsim/tape"
)

var (
	pFastPath        = simrt.NewProbe("cfb8.call.len>2blocks.disjoint (fast path)")
	pFastPathCarry   = simrt.NewProbe("cfb8.fast.path.entered.with.carried.ivPos>0")
	pInPlaceLong     = simrt.NewProbe("cfb8.call.len>2blocks.in.place")
	pSlowAfterFast   = simrt.NewProbe("cfb8.short.call.after.fast.path")
	pDstLarger       = simrt.NewProbe("cfb8.dst.larger.than.src")
	pSameArray       = simrt.NewProbe("cfb8.src.and.dst.disjoint.parts.of.one.array")
	pRingWrap        = simrt.NewProbe("cfb8.ring.buffer.wrapped(>=33.bytes.via.slow.path)")
	pKey24           = simrt.NewProbe("key.24.bytes")
	pKey32           = simrt.NewProbe("key.32.bytes")
	pConnCompressed  = simrt.NewProbe("conn.encrypted+compressed")
	pMidStreamSwitch = simrt.NewProbe("conn.encryption.switched.on.mid-stream")
	pIVSpare         = simrt.NewProbe("iv.slice.with.spare.capacity.shared.by.both.streams")
)

func keyIV(tp *tape.Tape) (key, iv []byte) {
	kl := []int{16, 24, 32}[tp.Pick(3, 1, 1)]
	switch kl {
	case 24:
		pKey24.Hit()
	case 32:
		pKey32.Hit()
	}
	key = tp.Bytes(kl)
	iv = tp.Bytes(16)
	// Minecraft uses key == iv; keep that a common case
	if kl == 16 && tp.Bool(1, 2) {
		iv = append([]byte(nil), key...)
	}
	// The IV is handed to the constructors as a slice that may have spare
	// capacity (a sub-slice of a larger buffer), and - as bot/login.go and
	// server/auth do - the same slice is used for the encrypter and the
	// decrypter. Neither may matter.
	if spare := []int{0, 0, 1, 16, 32, 48, 100}[tp.Choose(7)]; spare > 0 {
		pIVSpare.Hit()
		buf := make([]byte, 16, 16+spare)
		copy(buf, iv)
		for i := 16; i < cap(buf); i++ {
			buf[:cap(buf)][i] = 0xA7
		}
		iv = buf
	}
	return
}

func msgLen(tp *tape.Tape) int {
	if tp.Bool(1, 25) {
		// beyond one page / typical batch sizes
		return 4090 + tp.Choose(16000)
	}
	switch tp.Pick(2, 4, 3, 2) {
	case 0:
		return tp.Choose(3)
	case 1:
		return []int{15, 16, 17, 31, 32, 33, 34, 47, 48, 49}[tp.Choose(10)]
	case 2:
		return tp.Choose(200)
	}
	return tp.Choose(4097)
}

func callLen(tp *tape.Tape, remaining int) int {
	var n int
	switch tp.Pick(3, 4, 2, 1, 2) {
	case 0:
		n = 1 + tp.Choose(3)
	case 1:
		n = []int{15, 16, 17, 31, 32, 33, 34}[tp.Choose(7)]
	case 2:
		n = 1 + tp.Choose(100)
	case 4:
		// k*2^j plus a block-sized offset: lengths that are special only
		// because of an internal batch or scratch size (C10-35)
		n = (1+tp.Choose(4))<<(6+tp.Choose(7)) + []int{0, 1, -1, 16, 17, 15, 32, 33}[tp.Choose(8)]
	default:
		n = remaining
	}
	if remaining > 4096 && tp.Bool(1, 3) {
		n = remaining - tp.Choose(3) // one long call
	}
	if n > remaining {
		n = remaining
	}
	if n < 1 {
		n = 1
	}
	return n
}

// scenarioDirect drives XORKeyStream directly with a call-length history and
// the three buffer relations the cipher.Stream contract allows.
func scenarioDirect(c *harness.Ctx) {
	tp := c.T
	key, iv := keyIV(tp)
	decrypt := tp.Bool(1, 2)
	msg := tp.Bytes(msgLen(tp))
	blk, _ := aes.NewCipher(key)
	var s *CFB8.CFB8
	if decrypt {
		s = CFB8.NewCFB8Decrypt(blk, iv)
	} else {
		s = CFB8.NewCFB8Encrypt(blk, iv)
	}
	ivCopy := append([]byte(nil), iv...)
	// the opposite stream, built from the very same iv slice, undoes every call
	var inv *CFB8.CFB8
	if decrypt {
		inv = CFB8.NewCFB8Encrypt(blk, iv)
	} else {
		inv = CFB8.NewCFB8Decrypt(blk, iv)
	}
	r := ref.New(key, ivCopy, decrypt)
	want := r.Apply(msg)
	var calls []string
	got := make([]byte, 0, len(msg))
	slowRun := 0
	afterFast := false
	for off := 0; off < len(msg); {
		n := callLen(tp, len(msg)-off)
		rel := tp.Choose(6)
		src := append([]byte(nil), msg[off:off+n]...)
		var dst []byte
		switch rel {
		case 3, 4, 5:
			// src and dst are disjoint parts of ONE array (legal: they do not
			// overlap at all), adjacent or a few bytes apart, in either order - the
			// implementation decides its path by pointer arithmetic
			gap := 0
			if rel == 5 {
				gap = 1 + tp.Choose(20)
			}
			arr := make([]byte, 2*n+gap)
			if tp.Bool(1, 2) {
				copy(arr[:n], src)
				src, dst = arr[:n:n], arr[n+gap:]
			} else {
				copy(arr[n+gap:], src)
				src, dst = arr[n+gap:], arr[:n:n]
			}
			pSameArray.Hit()
		case 0: // in place
			dst = src
			if n > 32 {
				pInPlaceLong.Hit()
			}
		case 1: // disjoint, same length
			dst = make([]byte, n)
		default: // disjoint, dst larger
			dst = make([]byte, n+1+tp.Choose(40))
			for i := range dst {
				dst[i] = 0xEE
			}
			pDstLarger.Hit()
		}
		if rel != 0 && n > 32 {
			pFastPath.Hit()
			if slowRun%16 != 0 || slowRun > 0 {
				pFastPathCarry.Hit()
			}
			afterFast = true
			slowRun = 0
		} else {
			if afterFast {
				pSlowAfterFast.Hit()
			}
			slowRun += n
			if slowRun >= 33 {
				pRingWrap.Hit()
			}
		}
		calls = append(calls, fmt.Sprintf("%d%s", n, []string{"i", "d", "D", "a", "a", "g"}[rel]))
		func() {
			defer func() {
				if p := recover(); p != nil {
					c.Fail("panic", "xorkeystream", "call", "XORKeyStream panicked on call %v (history %v): %v", calls[len(calls)-1], calls, p)
				}
			}()
			s.XORKeyStream(dst, src)
		}()
		if c.Failed() {
			return
		}
		if rel == 2 {
			for i := n; i < len(dst); i++ {
				if dst[i] != 0xEE {
					c.Fail("cfb8", "xorkeystream", "wrote-beyond-src-len", "call history %v: byte %d of dst (beyond len(src)=%d) was modified", calls, i, n)
					return
				}
			}
		}
		got = append(got, dst[:n]...)
		// round trip through the opposite stream (separate buffer)
		back := make([]byte, n)
		inv.XORKeyStream(back, dst[:n])
		if !bytes.Equal(back, msg[off:off+n]) {
			c.Fail("cfb8", "roundtrip", "inverse-stream", "call history %v: applying the opposite stream (same key, same IV slice) to the output of call %d does not give the input back", calls, len(calls))
			return
		}
		off += n
	}
	if !bytes.Equal(iv, ivCopy) {
		c.Fail("cfb8", "constructor", "iv-modified", "the caller's IV slice was modified by the streams (len %d cap %d)", len(iv), cap(iv))
		return
	}
	c.Config["decrypt"] = decrypt
	c.Config["key_len"] = len(key)
	c.Config["msg_len"] = len(msg)
	c.Config["calls"] = calls
	c.FoldBytes(got)
	c.Nontrivial = len(calls) > 1
	c.FP = harness.HashString(fmt.Sprint(calls, decrypt, len(key)))
	if !bytes.Equal(got, want) {
		i := 0
		for i < len(got) && got[i] == want[i] {
			i++
		}
		dir := "encrypt"
		if decrypt {
			dir = "decrypt"
		}
		c.Fail("cfb8", dir, "differs-from-reference", "%s with %d-byte key: output differs from byte-at-a-time AES-CFB8 at offset %d of %d; call history (len + i=in place, d=disjoint, D=larger dst): %v", dir, len(key), i, len(msg), calls)
	}
}

type streamState struct {
	got []byte
	err error
}

//go:norace
func (s *streamState) add(b []byte) {
	for _, x := range b {
		s.got = append(s.got, x)
	}
}

//go:norace
func (s *streamState) setErr(err error) { s.err = err }

// scenarioStream: encrypter task -> link -> decrypter task; the link's
// delivery schedule is the XORKeyStream call pattern of the StreamReader.
func scenarioStream(c *harness.Ctx) {
	tp := c.T
	key, iv := keyIV(tp)
	msg := tp.Bytes(msgLen(tp))
	cfg := simnet.DrawCfgFor(tp, len(msg))
	if tp.Bool(1, 2) {
		cfg.MaxSeg = []int{15, 16, 17, 31, 32, 33, 34, 48}[tp.Choose(8)]
		cfg.SegMode = 2
	}
	var chunks []int
	for off := 0; off < len(msg); {
		n := callLen(tp, len(msg)-off)
		chunks = append(chunks, n)
		off += n
	}
	bufSizes := []int{1, 2, 15, 16, 17, 31, 32, 33, 34, 64, 512, 4096}
	c.Config["msg_len"] = len(msg)
	c.Config["key_len"] = len(key)
	c.Config["write_chunks"] = chunks
	st := &streamState{}
	var link *simnet.Link
	out, w := c.World(func(w *kernel.World) {
		link = simnet.Pipe(w, "cfb", cfg, simnet.LinkCfg{CutAt: -1, StallAt: -1})
		w.Go("encrypter", func() {
			blk, _ := aes.NewCipher(key)
			sw := cipher.StreamWriter{S: CFB8.NewCFB8Encrypt(blk, iv), W: link.A}
			off := 0
			for _, n := range chunks {
				if _, err := sw.Write(msg[off : off+n]); err != nil {
					c.Infra = "stream write: " + err.Error()
					return
				}
				off += n
			}
			link.A.CloseWrite()
		})
		w.Go("decrypter", func() {
			blk, _ := aes.NewCipher(key)
			sr := cipher.StreamReader{S: CFB8.NewCFB8Decrypt(blk, iv), R: link.B}
			for {
				buf := make([]byte, bufSizes[tp.Choose(len(bufSizes))])
				n, err := sr.Read(buf)
				st.add(buf[:n])
				if err != nil {
					if err != io.EOF {
						st.setErr(err)
					}
					return
				}
			}
		})
	})
	if c.Infra != "" {
		return
	}
	c.TaskPanics(w, "stream")
	if c.Failed() {
		return
	}
	if out != kernel.OutDone {
		c.Fail("cfb8.liveness", "stream", fmt.Sprint(out), "world did not finish: %v %v", out, w.DeadlockAt)
		return
	}
	got, rerr := st.got, st.err
	if rerr != nil {
		c.Fail("cfb8", "stream", "read-error", "decrypting reader failed: %v", rerr)
		return
	}
	wire := link.TapAB()
	c.FoldBytes(wire)
	want := ref.New(key, iv, false).Apply(msg)
	if !bytes.Equal(wire, want) {
		c.Fail("cfb8", "encrypt", "wire-differs-from-reference", "ciphertext on the wire differs from byte-at-a-time AES-CFB8 (msg %d bytes, writer chunks %v)", len(msg), chunks)
		return
	}
	if !bytes.Equal(got, msg) {
		i := 0
		for i < len(got) && i < len(msg) && got[i] == msg[i] {
			i++
		}
		c.Fail("cfb8", "decrypt", "roundtrip", "decrypted stream differs from the message at offset %d (got %d bytes, want %d); link seg_mode=%d max_seg=%d read_mode=%d", i, len(got), len(msg), cfg.SegMode, cfg.MaxSeg, cfg.ReadMode)
	}
}

// scenarioConn: two encrypted (optionally compressed) Conns, packets in both
// directions, reader and writer task on each side.
func scenarioConn(c *harness.Ctx) {
	tp := c.T
	key, iv := keyIV(tp)
	key2, iv2 := keyIV(tp)
	threshold := gen.Threshold(tp, false)
	if threshold >= 0 {
		pConnCompressed.Hit()
	}
	type pkt struct {
		id   int32
		data []byte
	}
	mk := func(tag int) []pkt {
		n := tp.Choose(12)
		if tp.Bool(1, 8) {
			n = tp.Choose(60)
		}
		ps := make([]pkt, n)
		for i := range ps {
			id := gen.PacketID(tp)
			ps[i] = pkt{id, gen.Fill(tp, gen.PayloadLen(tp, threshold, id, 3000), tag, i)}
		}
		return ps
	}
	ab, ba := mk(1), mk(2)
	if tp.Bool(1, 120) {
		// one packet close to the protocol maximum, incompressible
		pConnHuge.Hit()
		id := gen.PacketID(tp)
		data := tp.Bytes(1<<21 - 5 - tp.Choose(700))
		x := tp.U64()
		for i := range data {
			x ^= x << 13
			x ^= x >> 7
			x ^= x << 17
			data[i] = byte(x)
		}
		ab = append(ab, pkt{id, data})
	}
	// The first plainAB/plainBA packets of each direction are exchanged before
	// encryption is switched on (as in the login flow); each side switches its
	// writer right after sending them and its reader right after reading the
	// peer's, without waiting for the other side.
	plainAB, plainBA := 0, 0
	if tp.Bool(1, 2) {
		pMidStreamSwitch.Hit()
		plainAB, plainBA = tp.Choose(min(len(ab), 3)+1), tp.Choose(min(len(ba), 3)+1)
	}
	closeAfter := tp.Bool(1, 2)
	fixWindow := func(cfg *simnet.LinkCfg, prefix int) {
		// both single-threaded prefix phases write before they read: the window
		// must hold the plaintext prefix or the harness dead-locks itself
		if prefix > 0 && cfg.Window > 0 && cfg.Window < 12000 {
			cfg.Window = 12000
		}
	}
	total := 0
	for _, p := range ab {
		total += len(p.data) + 10
	}
	cfgAB := simnet.DrawCfgFor(tp, total)
	total = 0
	for _, p := range ba {
		total += len(p.data) + 10
	}
	cfgBA := simnet.DrawCfgFor(tp, total)
	fixWindow(&cfgAB, plainAB)
	fixWindow(&cfgBA, plainBA)
	c.Config["plain_prefix"] = []int{plainAB, plainBA}
	c.Config["threshold"] = threshold
	c.Config["packets_ab"] = len(ab)
	c.Config["packets_ba"] = len(ba)
	var link *simnet.Link
	out, w := c.World(func(w *kernel.World) {
		link = simnet.Pipe(w, "enc", cfgAB, cfgBA)
		ca, cb := mcnet.WrapConn(link.A), mcnet.WrapConn(link.B)
		ba1, _ := aes.NewCipher(key)
		ba2, _ := aes.NewCipher(key2)
		bb1, _ := aes.NewCipher(key)
		bb2, _ := aes.NewCipher(key2)
		// A encrypts with (key,iv), decrypts with (key2,iv2); B the reverse.
		// mcnet.Conn switches reader and writer together in SetCipher; with a
		// plaintext prefix each side runs one task that does its writes up to the
		// switch, then its reads up to the switch, then switches, and the rest in
		// separate reader/writer tasks.
		ca.SetThreshold(threshold)
		cb.SetThreshold(threshold)
		write := func(name string, conn *mcnet.Conn, ps []pkt, from, to int) bool {
			for i := from; i < to; i++ {
				if err := conn.WritePacket(pk.Packet{ID: ps[i].id, Data: ps[i].data}); err != nil {
					c.Fail("conn.encrypted", "write", "error", "%s: WritePacket %d failed: %v", name, i, err)
					return false
				}
			}
			return true
		}
		read := func(name string, conn *mcnet.Conn, ps []pkt, from, to int) bool {
			var p pk.Packet
			for i := from; i < to; i++ {
				want := ps[i]
				if err := conn.ReadPacket(&p); err != nil {
					c.Fail("conn.encrypted", "read", "error", "%s: ReadPacket %d (len %d, threshold %d) failed: %v", name, i, len(want.data), threshold, err)
					return false
				}
				if p.ID != want.id || !bytes.Equal(p.Data, want.data) {
					c.Fail("conn.encrypted", "read", "mismatch", "%s: packet %d arrived as id=%d len=%d, sent id=%d len=%d (threshold %d, %d plaintext packets before the switch)", name, i, p.ID, len(p.Data), want.id, len(want.data), threshold, from)
					return false
				}
			}
			return true
		}
		side := func(name string, conn *mcnet.Conn, enc, dec cipher.Stream, out []pkt, plainOut int, in []pkt, plainIn int, raw *simnet.Conn) {
			w.Go(name, func() {
				if !write(name, conn, out, 0, plainOut) || !read(name, conn, in, 0, plainIn) {
					return
				}
				conn.SetCipher(enc, dec)
				var wg simsync.WaitGroup
				wg.Add(1)
				w.Go(name+"-send", func() {
					defer wg.Done()
					if write(name, conn, out, plainOut, len(out)) && closeAfter {
						raw.CloseWrite()
					}
				})
				read(name, conn, in, plainIn, len(in))
				wg.Wait()
			})
		}
		side("A", ca, CFB8.NewCFB8Encrypt(ba1, iv), CFB8.NewCFB8Decrypt(ba2, iv2), ab, plainAB, ba, plainBA, link.A)
		side("B", cb, CFB8.NewCFB8Encrypt(bb2, iv2), CFB8.NewCFB8Decrypt(bb1, iv), ba, plainBA, ab, plainAB, link.B)
	})
	if c.Infra != "" {
		return
	}
	c.TaskPanics(w, "conn")
	if c.Failed() {
		return
	}
	if out != kernel.OutDone {
		c.Fail("conn.encrypted", "liveness", fmt.Sprint(out), "world did not finish: %v %v", out, w.DeadlockAt)
		return
	}
	// the wire, decrypted by the reference, must be a conformant frame stream
	check := func(dir string, wire, k, v []byte, ps []pkt, nPlain int) {
		// the plaintext prefix is parsed as is; everything after it is decrypted
		rest := wire
		for i := 0; i < nPlain; i++ {
			f, r, err := frame.Next(rest, threshold >= 0, threshold)
			if err != nil || f.ID != ps[i].id || !bytes.Equal(f.Payload, ps[i].data) {
				c.Fail("conn.encrypted", dir, "wire-plain-prefix", "plaintext frame %d before the switch is not on the wire as sent: %v", i, err)
				return
			}
			rest = r
		}
		rest = ref.New(k, v, true).Apply(rest)
		for i, p := range ps[nPlain:] {
			f, r, err := frame.Next(rest, threshold >= 0, threshold)
			if err != nil {
				c.Fail("conn.encrypted", dir, "wire-unparseable", "reference-decrypted wire, frame %d: %v", i, err)
				return
			}
			if f.ID != p.id || !bytes.Equal(f.Payload, p.data) {
				c.Fail("conn.encrypted", dir, "wire-content", "reference-decrypted wire, frame %d has id=%d len=%d, sent id=%d len=%d", i, f.ID, len(f.Payload), p.id, len(p.data))
				return
			}
			rest = r
		}
		if len(rest) != 0 {
			c.Fail("conn.encrypted", dir, "wire-extra", "%d extra bytes on the wire", len(rest))
		}
	}
	c.FoldBytes(link.TapAB())
	c.FoldBytes(link.TapBA())
	check("a->b", link.TapAB(), key, iv, ab, plainAB)
	check("b->a", link.TapBA(), key2, iv2, ba, plainBA)
}

var prop = &harness.Property{
	ID: "C10",
	Scenarios: []harness.Scenario{
		{Name: "direct", Weight: 5, Run: scenarioDirect},
		{Name: "stream", Weight: 3, Run: scenarioStream},
		{Name: "conn", Weight: 2, Run: scenarioConn},
	},
	Real:        []string{"net/CFB8 (NewCFB8Encrypt/Decrypt, XORKeyStream)", "crypto/cipher.StreamReader/StreamWriter", "net.Conn.SetCipher/SetThreshold/ReadPacket/WritePacket", "crypto/aes"},
	Stub:        []string{"simulated byte-stream link (its delivery schedule is the XORKeyStream call pattern)", "buffer pools (simsync.Pool)"},
	Rule:        "direct: one seeded (key, IV, message, call-length history x {in place, disjoint, larger dst}) per run compared with the byte-at-a-time reference; stream/conn: one seeded world (writer chunking, link segmentation dense around 1/15..17/31..34, reader buffer sizes, thresholds, packet histories). Non-trivial = more than one call / more context switches than tasks; distinct = distinct call history or schedule hash",
	Assumptions: []string{"crypto/aes is the block cipher reference", "callers respect the cipher.Stream contract (dst and src overlap entirely or not at all)"},
}

func TestWorker(t *testing.T) { harness.Main(t, prop) }

var pConnHuge = simrt.NewProbe("conn.packet.near.protocol.maximum.incompressible")
