//go:build verif

package c14

import (
	"testing"

	"verifsim/harness"
	"verifsim/regionsim"
	"verifsim/simrt"
)

func nOps(c *harness.Ctx) int {
	tp := c.T
	switch tp.Pick(4, 4, 2, 1) {
	case 0:
		return 1 + tp.Choose(8)
	case 1:
		return 1 + tp.Choose(40)
	case 2:
		return 1 + tp.Choose(150)
	}
	return 1 + tp.Choose(400)
}

func scenarioHistory(c *harness.Ctx) {
	tp := c.T
	defer simrt.SetClock(nil)
	var start []byte
	var carry map[regionsim.Key][]byte
	seq := 0
	if tp.Bool(1, 4) {
		// the history starts from an image left by an earlier history
		regionsim.PStartImage.Hit()
		p := regionsim.New(c, nil)
		if !p.Open() {
			return
		}
		for i := 3 + tp.Choose(15); i > 0; i-- {
			if !p.Write(p.Coord(), regionsim.Size(tp, false)) {
				return
			}
		}
		start, carry, seq = p.Disk.Img, p.Model, p.Seq
	}
	s := regionsim.New(c, start)
	if carry != nil {
		s.Model = carry
		s.Seq = seq
	}
	real := tp.Bool(1, 12)
	if real && !s.UseRealFile() {
		return
	}
	defer s.Cleanup()
	if !s.Open() {
		return
	}
	n := nOps(c)
	allowBig := tp.Bool(1, 30)
	c.Config["ops"] = n
	c.Config["writer_at"] = s.WriterAt
	c.Config["real_file"] = real
	c.Config["clock_jumps"] = s.Clock.JumpDen
	c.Config["start_image_bytes"] = len(start)
	every := 1 + tp.Choose(6)
	for i := 0; i < n; i++ {
		if !s.Step(allowBig) {
			return
		}
		if i%every == 0 && !s.CheckFresh("operation "+itoa(i)) {
			return
		}
		c.Fold(s.Fingerprint())
	}
	if !s.CheckFresh("the whole history") {
		return
	}
	for _, k := range regionsim.SortedKeys(s.Model) {
		if !s.Read(k) {
			return
		}
	}
	c.Fold(uint64(len(s.Disk.Img)))
	c.Nontrivial = len(s.Model) >= 2
	c.FP = c.Hash
	c.Steps = s.Ops
}

func itoa(i int) string {
	if i == 0 {
		return "0"
	}
	var b []byte
	for i > 0 {
		b = append([]byte{byte('0' + i%10)}, b...)
		i /= 10
	}
	return string(b)
}

var prop = &harness.Property{
	ID: "C14",
	Scenarios: []harness.Scenario{
		{Name: "history", Weight: 1, Run: scenarioHistory},
	},
	Real:        []string{"save/region: CreateWriter, Load, WriteSector, ReadSector, ExistSector, PadToFullSector (time.Now woven to the simulated clock)"},
	Stub:        []string{"disk (simdisk.File, with and without io.WriterAt)", "clock (simrt.Clock with jumps between the clock reads of one operation)"},
	NotRun:      []string{"region.Create/Open on real os.File"},
	Rule:        "a run is one seeded history of 1..400 operations (write with sizes around sector boundaries and the 255-sector limit, overwrite grow/shrink/keep, read, exist, pad, clean re-open, over-limit write, clock advance/jump) checked after every operation against a map model and the independent Anvil parser, and periodically against a fresh Load (offsets, timestamps, every chunk). Non-trivial = at least two live chunks; distinct = distinct hash over the sequence of allocation states",
	Assumptions: []string{"fault-free disk (faults are C15's configuration)", "chunk sizes >= 1 byte", "the independent Anvil parser in /verif/sim/oracle/anvil is the judge of file validity"},
}

func TestWorker(t *testing.T) { harness.Main(t, prop) }
