//go:build verif

package c14

import (
	"bytes"
	"encoding/binary"
	"fmt"
	"io"
	"testing"
	"time"

	"github.com/Tnze/go-mc/save/region"

	"verifsim/oracle/anvil"
	"verifsim/simdisk"

	"verifsim/kernel"

	"verifsim/harness"
	"verifsim/regionsim"
	"verifsim/simrt"
)

func nOps(c *harness.Ctx) int {
	tp := c.T
	switch tp.Pick(4, 4, 2, 1) {
	case 0:
		return 1 + tp.Choose(8)
	case 1:
		return 1 + tp.Choose(40)
	case 2:
		return 1 + tp.Choose(150)
	}
	return 1 + tp.Choose(400)
}

func scenarioHistory(c *harness.Ctx) {
	tp := c.T
	defer simrt.SetClock(nil)
	var start []byte
	var carry map[regionsim.Key][]byte
	seq := 0
	if tp.Bool(1, 4) {
		// the history starts from an image left by an earlier history
		regionsim.PStartImage.Hit()
		p := regionsim.New(c, nil)
		if !p.Open() {
			return
		}
		for i := 3 + tp.Choose(15); i > 0; i-- {
			if !p.Write(p.Coord(), regionsim.Size(tp, false)) {
				return
			}
		}
		start, carry, seq = p.Disk.Img, p.Model, p.Seq
	}
	s := regionsim.New(c, start)
	if carry != nil {
		s.Model = carry
		s.Seq = seq
	}
	real := tp.Bool(1, 12)
	if real && !s.UseRealFile() {
		return
	}
	defer s.Cleanup()
	if !s.Open() {
		return
	}
	n := nOps(c)
	allowBig := tp.Bool(1, 30)
	c.Config["ops"] = n
	c.Config["writer_at"] = s.WriterAt
	c.Config["real_file"] = real
	c.Config["clock_jumps"] = s.Clock.JumpDen
	c.Config["start_image_bytes"] = len(start)
	every := 1 + tp.Choose(6)
	for i := 0; i < n; i++ {
		if !s.Step(allowBig) {
			return
		}
		if i%every == 0 && !s.CheckFresh("operation "+itoa(i)) {
			return
		}
		c.Fold(s.Fingerprint())
	}
	if !s.CheckFresh("the whole history") {
		return
	}
	for _, k := range regionsim.SortedKeys(s.Model) {
		if !s.Read(k) {
			return
		}
	}
	c.Fold(uint64(len(s.Disk.Img)))
	c.Nontrivial = len(s.Model) >= 2
	c.FP = c.Hash
	c.Steps = s.Ops
}

func itoa(i int) string {
	if i == 0 {
		return "0"
	}
	var b []byte
	for i > 0 {
		b = append([]byte{byte('0' + i%10)}, b...)
		i /= 10
	}
	return string(b)
}

// scenarioPair: two independent regions, each used by one task only (a Region
// is documented as not safe for concurrent use, two Regions are independent),
// interleaved at every disk operation and at statement level.
func scenarioPair(c *harness.Ctx) {
	tp := c.T
	defer simrt.SetClock(nil)
	nOps := [2]int{1 + tp.Choose(25), 1 + tp.Choose(25)}
	c.Config["ops"] = nOps
	var sims [2]*regionsim.Sim
	out, w := c.World(func(w *kernel.World) {
		for i := 0; i < 2; i++ {
			i := i
			w.Go(fmt.Sprintf("region%d", i), func() {
				s := regionsim.New(c, nil)
				sims[i] = s
				if !s.Open() {
					return
				}
				for k := 0; k < nOps[i] && !c.Failed(); k++ {
					if !s.Step(false) {
						return
					}
				}
				s.CheckFresh("the whole history")
			})
		}
	})
	if c.Infra != "" {
		return
	}
	c.TaskPanics(w, "pair")
	if c.Failed() {
		return
	}
	if out != kernel.OutDone {
		c.Fail("region.liveness", "pair", fmt.Sprint(out), "two regions used by two tasks did not finish: %v %v", out, w.DeadlockAt)
		return
	}
	for _, s := range sims {
		if s != nil && s.R != nil {
			c.Fold(s.Fingerprint(), uint64(len(s.Disk.Img)))
		}
	}
}

// scenarioHuge: a history long and large enough to push the allocation beyond
// sector 65535 (a file of more than 256 MiB): 258+ chunks of the maximum size,
// then overwrites, reads and a re-open among the highest chunks. Chunk data is
// a unique 16-byte header followed by zeros, which keeps the simulated disk
// cheap (zero pages are never touched).
func scenarioHuge(c *harness.Ctx) {
	tp := c.T
	defer simrt.SetClock(nil)
	s := regionsim.New(c, nil)
	s.Disk.ReadMode = 0
	if !s.Open() {
		return
	}
	mk := func(k regionsim.Key, seq, size int) []byte {
		b := make([]byte, size)
		copy(b, []byte{byte(k.X), byte(k.Z), byte(seq), byte(seq >> 8), 0xC4, 0x48, 0x55, 0x47, 0x45})
		return b
	}
	n := 258 + tp.Choose(4)
	for i := 0; i < n; i++ {
		k := regionsim.Key{X: i % 32, Z: i / 32}
		s.Seq++
		data := mk(k, s.Seq, 255*4096-4-tp.Choose(3))
		if err := s.R.WriteSector(k.X, k.Z, data); err != nil {
			c.Fail("region.write", "write", "error", "WriteSector(%d,%d,%d bytes) failed on a healthy disk: %v", k.X, k.Z, len(data), err)
			return
		}
		s.Model[k] = data
	}
	c.Config["chunks"] = n
	c.Config["file_bytes"] = len(s.Disk.Img)
	pHuge.Hit()
	if !s.CheckImage("filling the file beyond sector 65535") {
		return
	}
	for i := 3 + tp.Choose(6); i > 0; i-- {
		hi := n - 1 - tp.Choose(4) // among the chunks stored above sector 65535
		k := regionsim.Key{X: hi % 32, Z: hi / 32}
		switch tp.Choose(4) {
		case 0:
			if !s.Read(k) {
				return
			}
		case 1:
			if !s.Reopen() {
				return
			}
		case 2:
			if !s.Write(k, 1+tp.Choose(9000)) { // shrinks and relocates
				return
			}
		default:
			if !s.Write(regionsim.Key{X: 31 - tp.Choose(4), Z: 31}, 1+tp.Choose(20000)) {
				return
			}
		}
	}
	if !s.CheckFresh("the huge history") {
		return
	}
	c.Fold(s.Fingerprint())
	c.Nontrivial = true
	c.FP = c.Hash
}

// scenarioSparse: the history starts from a valid region file whose chunks
// live at very high sector numbers (the location field has 24 bits: up to
// sector 16 777 215, i.e. 64 GiB) - a sparse file as another tool may have left
// it. Offsets beyond 2^31 and 2^32 bytes are reached; everything is checked by
// the independent parser on the sparse image.
func scenarioSparse(c *harness.Ctx) {
	tp := c.T
	defer simrt.SetClock(nil)
	clk := &simrt.Clock{T: time.Unix(1_700_000_000, 0), Tape: tp}
	simrt.SetClock(clk)
	sp := simdisk.NewSparse()
	var rw io.ReadWriteSeeker = sp
	if tp.Bool(1, 2) {
		rw = simdisk.NoWriterAt{S: sp}
	}
	if _, err := region.CreateWriter(rw); err != nil {
		c.Fail("region.open", "open", "error", "CreateWriter on a sparse file: %v", err)
		return
	}
	bases := []int{65535 - 12, 65536, 65536 + 700, 1<<19 - 12, 1 << 19, 1<<19 + 9, 1<<20 - 12, 1 << 20, 1<<20 + 20, 1<<21 + 77, 1 << 23, 1<<24 - 300}
	model := map[regionsim.Key][]byte{}
	seq := 0
	place := func(k regionsim.Key, sector, size int) {
		seq++
		data := regionsim.Content(k, seq, size)
		cnt := (size + 4 + 4095) / 4096
		var hdr [4]byte
		binary.BigEndian.PutUint32(hdr[:], uint32(size))
		sp.WriteAt(hdr[:], int64(sector)*4096)
		sp.WriteAt(data, int64(sector)*4096+4)
		binary.BigEndian.PutUint32(hdr[:], uint32(sector)<<8|uint32(cnt))
		sp.WriteAt(hdr[:], 4*int64(k.Z*32+k.X))
		binary.BigEndian.PutUint32(hdr[:], []uint32{1_600_000_000, 1_900_000_000, 0x7fffff00, 5}[seq%4])
		sp.WriteAt(hdr[:], 4096+4*int64(k.Z*32+k.X))
		model[k] = data
	}
	nPlaced := 2 + tp.Choose(6)
	used := map[int]bool{}
	var placed []regionsim.Key
	for i := 0; i < nPlaced; i++ {
		b := tp.Choose(len(bases))
		if used[b] {
			continue
		}
		used[b] = true
		k := regionsim.Key{X: tp.Choose(32), Z: tp.Choose(32)}
		if _, dup := model[k]; dup {
			continue
		}
		place(k, bases[b], 1+tp.Choose(9000))
		placed = append(placed, k)
	}
	pSparse.Hit()
	sp.Pos = 0
	r, err := region.Load(rw)
	if err != nil {
		// An implementation may refuse a file that no history of its own writes
		// could have produced (nothing in the statement forbids that); what it may
		// not do is accept the file and then return wrong data.
		pSparseRefused.Hit()
		c.Logf("Load refused the sparse file: %v (run skipped)", err)
		return
	}
	c.Config["placed_sectors"] = len(placed)
	check := func(after string) bool {
		entries, err := anvil.Header(sp, sp.Size)
		if err != nil {
			c.Fail("region.format", "image", "header", "after %s: %v", after, err)
			return false
		}
		if err := anvil.CheckLayout(entries, false, 0, 0); err != nil {
			c.Fail("region.format", "image", "layout", "after %s the file is not a valid Anvil region: %v", after, err)
			return false
		}
		seen := map[regionsim.Key]bool{}
		for _, e := range entries {
			k := regionsim.Key{X: e.X, Z: e.Z}
			seen[k] = true
			want, ok := model[k]
			if !ok {
				c.Fail("region.format", "image", "phantom-entry", "after %s: header entry for chunk (%d,%d) which was never written", after, e.X, e.Z)
				return false
			}
			data, err := anvil.Chunk(sp, sp.Size, e)
			if err != nil || !bytes.Equal(data, want) {
				c.Fail("region.format", "image", "chunk-data", "after %s: chunk (%d,%d) at sector %d on disk differs from what was last written (%v)", after, e.X, e.Z, e.Sector, err)
				return false
			}
		}
		for _, k := range regionsim.SortedKeys(model) {
			if !seen[k] {
				c.Fail("region.format", "image", "missing-entry", "after %s: chunk (%d,%d) has no header entry", after, k.X, k.Z)
				return false
			}
			got, err := r.ReadSector(k.X, k.Z)
			if err != nil || !bytes.Equal(got, model[k]) {
				c.Fail("region.read", "read", "wrong-data", "after %s: ReadSector(%d,%d) gives err=%v, %d bytes; %d bytes were last written", after, k.X, k.Z, err, len(got), len(model[k]))
				return false
			}
		}
		return true
	}
	if !check("loading the sparse file") {
		return
	}
	for i := 4 + tp.Choose(16); i > 0; i-- {
		var k regionsim.Key
		if len(placed) > 0 && tp.Bool(2, 3) {
			k = placed[tp.Choose(len(placed))]
		} else {
			k = regionsim.Key{X: tp.Choose(32), Z: tp.Choose(32)}
		}
		switch tp.Choose(5) {
		case 0, 1:
			size := 1 + tp.Choose(9000)
			if old, ok := model[k]; ok && tp.Bool(1, 2) {
				size = ((len(old)+4+4095)/4096)*4096 - 4 - tp.Choose(50) // same sector count: in place, at the high sector
			}
			seq++
			data := regionsim.Content(k, seq, size)
			if err := r.WriteSector(k.X, k.Z, data); err != nil {
				c.Fail("region.write", "write", "error", "WriteSector(%d,%d,%d bytes) failed on a healthy disk: %v", k.X, k.Z, size, err)
				return
			}
			model[k] = data
			if !check(fmt.Sprintf("WriteSector(%d,%d,%d bytes)", k.X, k.Z, size)) {
				return
			}
		case 2:
			_, want := model[k]
			if r.ExistSector(k.X, k.Z) != want {
				c.Fail("region.exist", "exist", fmt.Sprint(want), "ExistSector(%d,%d) wrong", k.X, k.Z)
				return
			}
		case 3:
			sp.Pos = 0
			nr, err := region.Load(rw)
			if err != nil {
				c.Fail("region.reload", "reopen", "load-error", "re-opening failed: %v", err)
				return
			}
			no, ok1 := regionsim.OffsetsOf(nr)
			ro, ok2 := regionsim.OffsetsOf(r)
			if (ok1 && ok2 && no != ro) || nr.Timestamps != r.Timestamps {
				c.Fail("region.reload", "fresh-load", "offsets", "offsets/timestamps after a fresh Load differ from the live region")
				return
			}
			r = nr
		default:
			if !check("a read round") {
				return
			}
		}
	}
	c.Fold(uint64(sp.Size), uint64(len(model)))
	c.Nontrivial = true
	c.FP = c.Hash
}

var pSparse = simrt.NewProbe("region.sparse.file.with.chunks.at.sectors>=2^16..2^24")

var pHuge = simrt.NewProbe("region.file.beyond.sector.65535(>256MiB)")

var prop = &harness.Property{
	ID: "C14",
	Scenarios: []harness.Scenario{
		{Name: "history", Weight: 600, Run: scenarioHistory},
		{Name: "pair", Weight: 120, Run: scenarioPair},
		{Name: "huge", Weight: 1, Run: scenarioHuge},
		{Name: "sparse", Weight: 40, Run: scenarioSparse},
	},
	Real:        []string{"save/region: CreateWriter, Load, WriteSector, ReadSector, ExistSector, PadToFullSector (time.Now woven to the simulated clock)", "save/region: Create/Open/Close on a real os.File in a scratch directory (1 in 12 histories; probe region.on.real.os.File)"},
	Stub:        []string{"disk (simdisk.File, with and without io.WriterAt)", "clock (simrt.Clock with jumps between the clock reads of one operation)"},
	NotRun:      []string{"disk faults (C15)", "concurrent use of one Region (the statement quantifies over histories; two regions used by two tasks are run in scenario pair)"},
	Rule:        "a run is one seeded history of 1..400 operations (write with sizes around sector boundaries and the 255-sector limit, overwrite grow/shrink/keep, read, exist, pad, clean re-open, over-limit write, clock advance/jump) checked after every operation against a map model and the independent Anvil parser, and periodically against a fresh Load (offsets, timestamps, every chunk). Non-trivial = at least two live chunks; distinct = distinct hash over the sequence of allocation states",
	Assumptions: []string{"fault-free disk (faults are C15's configuration)", "chunk sizes >= 1 byte", "the independent Anvil parser in /verif/sim/oracle/anvil is the judge of file validity"},
}

func TestWorker(t *testing.T) { harness.Main(t, prop) }

var pSparseRefused = simrt.NewProbe("region.sparse.file.refused.by.Load(run.skipped)")
