//go:build verif

package c14

import (
	"fmt"
	"testing"

	"verifsim/kernel"

	"verifsim/harness"
	"verifsim/regionsim"
	"verifsim/simrt"
)

func nOps(c *harness.Ctx) int {
	tp := c.T
	switch tp.Pick(4, 4, 2, 1) {
	case 0:
		return 1 + tp.Choose(8)
	case 1:
		return 1 + tp.Choose(40)
	case 2:
		return 1 + tp.Choose(150)
	}
	return 1 + tp.Choose(400)
}

func scenarioHistory(c *harness.Ctx) {
	tp := c.T
	defer simrt.SetClock(nil)
	var start []byte
	var carry map[regionsim.Key][]byte
	seq := 0
	if tp.Bool(1, 4) {
		// the history starts from an image left by an earlier history
		regionsim.PStartImage.Hit()
		p := regionsim.New(c, nil)
		if !p.Open() {
			return
		}
		for i := 3 + tp.Choose(15); i > 0; i-- {
			if !p.Write(p.Coord(), regionsim.Size(tp, false)) {
				return
			}
		}
		start, carry, seq = p.Disk.Img, p.Model, p.Seq
	}
	s := regionsim.New(c, start)
	if carry != nil {
		s.Model = carry
		s.Seq = seq
	}
	real := tp.Bool(1, 12)
	if real && !s.UseRealFile() {
		return
	}
	defer s.Cleanup()
	if !s.Open() {
		return
	}
	n := nOps(c)
	allowBig := tp.Bool(1, 30)
	c.Config["ops"] = n
	c.Config["writer_at"] = s.WriterAt
	c.Config["real_file"] = real
	c.Config["clock_jumps"] = s.Clock.JumpDen
	c.Config["start_image_bytes"] = len(start)
	every := 1 + tp.Choose(6)
	for i := 0; i < n; i++ {
		if !s.Step(allowBig) {
			return
		}
		if i%every == 0 && !s.CheckFresh("operation "+itoa(i)) {
			return
		}
		c.Fold(s.Fingerprint())
	}
	if !s.CheckFresh("the whole history") {
		return
	}
	for _, k := range regionsim.SortedKeys(s.Model) {
		if !s.Read(k) {
			return
		}
	}
	c.Fold(uint64(len(s.Disk.Img)))
	c.Nontrivial = len(s.Model) >= 2
	c.FP = c.Hash
	c.Steps = s.Ops
}

func itoa(i int) string {
	if i == 0 {
		return "0"
	}
	var b []byte
	for i > 0 {
		b = append([]byte{byte('0' + i%10)}, b...)
		i /= 10
	}
	return string(b)
}

// scenarioPair: two independent regions, each used by one task only (a Region
// is documented as not safe for concurrent use, two Regions are independent),
// interleaved at every disk operation and at statement level.
func scenarioPair(c *harness.Ctx) {
	tp := c.T
	defer simrt.SetClock(nil)
	nOps := [2]int{1 + tp.Choose(25), 1 + tp.Choose(25)}
	c.Config["ops"] = nOps
	var sims [2]*regionsim.Sim
	out, w := c.World(func(w *kernel.World) {
		for i := 0; i < 2; i++ {
			i := i
			w.Go(fmt.Sprintf("region%d", i), func() {
				s := regionsim.New(c, nil)
				sims[i] = s
				if !s.Open() {
					return
				}
				for k := 0; k < nOps[i] && !c.Failed(); k++ {
					if !s.Step(false) {
						return
					}
				}
				s.CheckFresh("the whole history")
			})
		}
	})
	if c.Infra != "" {
		return
	}
	c.TaskPanics(w, "pair")
	if c.Failed() {
		return
	}
	if out != kernel.OutDone {
		c.Fail("region.liveness", "pair", fmt.Sprint(out), "two regions used by two tasks did not finish: %v %v", out, w.DeadlockAt)
		return
	}
	for _, s := range sims {
		if s != nil && s.R != nil {
			c.Fold(s.Fingerprint(), uint64(len(s.Disk.Img)))
		}
	}
}

// scenarioHuge: a history long and large enough to push the allocation beyond
// sector 65535 (a file of more than 256 MiB): 258+ chunks of the maximum size,
// then overwrites, reads and a re-open among the highest chunks. Chunk data is
// a unique 16-byte header followed by zeros, which keeps the simulated disk
// cheap (zero pages are never touched).
func scenarioHuge(c *harness.Ctx) {
	tp := c.T
	defer simrt.SetClock(nil)
	s := regionsim.New(c, nil)
	s.Disk.ReadMode = 0
	if !s.Open() {
		return
	}
	mk := func(k regionsim.Key, seq, size int) []byte {
		b := make([]byte, size)
		copy(b, []byte{byte(k.X), byte(k.Z), byte(seq), byte(seq >> 8), 0xC4, 0x48, 0x55, 0x47, 0x45})
		return b
	}
	n := 258 + tp.Choose(4)
	for i := 0; i < n; i++ {
		k := regionsim.Key{X: i % 32, Z: i / 32}
		s.Seq++
		data := mk(k, s.Seq, 255*4096-4-tp.Choose(3))
		if err := s.R.WriteSector(k.X, k.Z, data); err != nil {
			c.Fail("region.write", "write", "error", "WriteSector(%d,%d,%d bytes) failed on a healthy disk: %v", k.X, k.Z, len(data), err)
			return
		}
		s.Model[k] = data
	}
	c.Config["chunks"] = n
	c.Config["file_bytes"] = len(s.Disk.Img)
	pHuge.Hit()
	if !s.CheckImage("filling the file beyond sector 65535") {
		return
	}
	for i := 3 + tp.Choose(6); i > 0; i-- {
		hi := n - 1 - tp.Choose(4) // among the chunks stored above sector 65535
		k := regionsim.Key{X: hi % 32, Z: hi / 32}
		switch tp.Choose(4) {
		case 0:
			if !s.Read(k) {
				return
			}
		case 1:
			if !s.Reopen() {
				return
			}
		case 2:
			if !s.Write(k, 1+tp.Choose(9000)) { // shrinks and relocates
				return
			}
		default:
			if !s.Write(regionsim.Key{X: 31 - tp.Choose(4), Z: 31}, 1+tp.Choose(20000)) {
				return
			}
		}
	}
	if !s.CheckFresh("the huge history") {
		return
	}
	c.Fold(s.Fingerprint())
	c.Nontrivial = true
	c.FP = c.Hash
}

var pHuge = simrt.NewProbe("region.file.beyond.sector.65535(>256MiB)")

var prop = &harness.Property{
	ID: "C14",
	Scenarios: []harness.Scenario{
		{Name: "history", Weight: 600, Run: scenarioHistory},
		{Name: "pair", Weight: 120, Run: scenarioPair},
		{Name: "huge", Weight: 1, Run: scenarioHuge},
	},
	Real:        []string{"save/region: CreateWriter, Load, WriteSector, ReadSector, ExistSector, PadToFullSector (time.Now woven to the simulated clock)"},
	Stub:        []string{"disk (simdisk.File, with and without io.WriterAt)", "clock (simrt.Clock with jumps between the clock reads of one operation)"},
	NotRun:      []string{"region.Create/Open on real os.File"},
	Rule:        "a run is one seeded history of 1..400 operations (write with sizes around sector boundaries and the 255-sector limit, overwrite grow/shrink/keep, read, exist, pad, clean re-open, over-limit write, clock advance/jump) checked after every operation against a map model and the independent Anvil parser, and periodically against a fresh Load (offsets, timestamps, every chunk). Non-trivial = at least two live chunks; distinct = distinct hash over the sequence of allocation states",
	Assumptions: []string{"fault-free disk (faults are C15's configuration)", "chunk sizes >= 1 byte", "the independent Anvil parser in /verif/sim/oracle/anvil is the judge of file validity"},
}

func TestWorker(t *testing.T) { harness.Main(t, prop) }
