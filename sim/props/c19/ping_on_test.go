//go:build !verif_noping

package c19

import "github.com/Tnze/go-mc/bot"

var pingAndList = bot.VerifPingAndList
