//go:build verif_noping

package c19

import (
	"context"
	"time"

	mcnet "github.com/Tnze/go-mc/net"
)

var pingAndList func(ctx context.Context, addr string, conn *mcnet.Conn) ([]byte, time.Duration, error)
