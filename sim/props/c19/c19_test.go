package c19

import (
	"bytes"
	"context"
	"crypto/md5"
	"encoding/binary"
	"encoding/json"
	"errors"
	"fmt"
	"image"
	"math"
	"net"
	"reflect"
	"sort"
	"testing"
	"time"

	"github.com/google/uuid"

	"github.com/Tnze/go-mc/bot"
	"github.com/Tnze/go-mc/chat"
	"github.com/Tnze/go-mc/data/packetid"
	mcnet "github.com/Tnze/go-mc/net"
	pk "github.com/Tnze/go-mc/net/packet"
	"github.com/Tnze/go-mc/net/queue"
	"github.com/Tnze/go-mc/server"
	"github.com/Tnze/go-mc/yggdrasil/user"

	"verifsim/gen"
	"verifsim/harness"
	"verifsim/kernel"
	"verifsim/oracle/frame"
	"verifsim/simnet"
	"verifsim/simrt"
	"verifsim/simsync"
	"verifsim/tape"
)

var (
	pJoinCompressed   = simrt.NewProbe("join.with.compression")
	pJoinPlain        = simrt.NewProbe("join.without.compression")
	pRefused          = simrt.NewProbe("join.refused.by.login.checker")
	pBundle           = simrt.NewProbe("bundle.dispatched")
	pBundleEmpty      = simrt.NewProbe("bundle.empty")
	pBundleQuiescence = simrt.NewProbe("bundle.quiescence.assertion")
	pHandlerError     = simrt.NewProbe("handler.error.injected")
	pPriorityTie      = simrt.NewProbe("handlers.with.equal.priority")
	pChannelQueue     = simrt.NewProbe("bot.queue.channel")
	pLinkedQueue      = simrt.NewProbe("bot.queue.linked")
	pStatus           = simrt.NewProbe("status.ping")
	pStatusDeadline   = simrt.NewProbe("status.ping.with.context.deadline")
	pMultiBot         = simrt.NewProbe("world.with>=2.bots")
	pConfigExtras     = simrt.NewProbe("configuration.ping/custom-payload.before.finish")
	pNoPort           = simrt.NewProbe("address.without.port")
	pHandlerReply     = simrt.NewProbe("handler.writes.a.packet.from.inside.the.handler")
)

var errHandler = errors.New("harness: injected handler failure")

// ---------------------------------------------------------------- scripts

type spkt struct {
	id     int32
	data   []byte
	bundle int // -1: not bundled; otherwise bundle number
}

type handlerCfg struct {
	generic  bool
	id       int32
	priority int
	park     bool
	reply    bool // the handler answers with a packet of its own (like a keep-alive)
}

const replyID = int32(-7777)

type invocation struct {
	handler int
	id      int32
	sum     uint64
	n       int
	stamp   int64
}

type botSim struct {
	idx       int
	name      string
	addr      string
	linked    bool
	s2c       []spkt
	c2s       []spkt
	handlers  []handlerCfg
	batches   []int // registration batch sizes
	failAt    int   // global invocation index at which the handler fails (-1 never)
	resume    bool  // after a PacketHandlerError the bot calls HandleGame again (as the example bots do)
	quiesce   map[int]bool
	link      *simnet.Link
	refuse    bool
	configExt int
	nCommon   int    // the first nCommon handlers are the world's shared "common" list
	claimed   string // UUID the client claims in Login-Hello ("" = none): an offline server must not adopt it

	// observations (written by tasks through norace methods)
	log          []invocation
	joinErr      error
	joined       bool
	gameErr      error
	handlerErr   error // what the first HandleGame call returned (resume mode)
	gameReturned bool
	cliName      string
	cliUUID      uuid.UUID
	accName      string
	accID        uuid.UUID
	accProto     int32
	accepted     int
	srvGot       []spkt
	srvReadErr   error
	delimBundle  []int   // bundles whose closing delimiter write has started ...
	delimAt      []int64 // ... and the event stamp at that moment
	early        string  // quiescence assertion failure
	corrupt      string
	configGot    []int32
	sendErr      error
}

//go:norace
func sum(b []byte) uint64 {
	h := uint64(1469598103934665603)
	for _, c := range b {
		h ^= uint64(c)
		h *= 1099511628211
	}
	return h
}

//go:norace
func (b *botSim) invoked(h int, p pk.Packet, stamp int64) int {
	b.log = append(b.log, invocation{h, p.ID, sum(p.Data), len(p.Data), stamp})
	return len(b.log) - 1
}

//go:norace
func (b *botSim) bundleDispatched(bundle int) int {
	n := 0
	// count invocations belonging to the bundle's packets: approximated by the
	// number of log entries beyond the packets dispatched before the bundle
	_ = bundle
	n = len(b.log)
	return n
}

var s2cIDs = []int32{1, 2, 3, 7, 40, int32(packetid.ClientboundPacketIDGuard) - 1}

// prio draws a handler priority: mostly a small range (ties are common),
// occasionally values far apart.
func prio(tp *tape.Tape) int {
	if tp.Bool(1, 12) {
		return []int{math.MinInt, math.MinInt + 1, -1 << 40, -10, math.MaxInt - 1, math.MaxInt, 1 << 40}[tp.Choose(7)]
	}
	return tp.Choose(3)
}

func drawBot(tp *tape.Tape, idx int, threshold int, names map[string]bool) *botSim {
	b := &botSim{idx: idx, failAt: -1, quiesce: map[int]bool{}}
	for attempt := 0; ; attempt++ {
		if attempt > 8 {
			b.name = fmt.Sprintf("bot_%d", idx)
			names[b.name] = true
			break
		}
		switch tp.Choose(6) {
		case 5:
			// up to 16 characters, each 2-3 bytes in UTF-8 (the name is then longer
			// than 16 bytes)
			pLongUTF8Name.Hit()
			rs := []rune("éüЖ世界玩家あ")
			n := 6 + tp.Choose(11)
			var sb []rune
			for i := 0; i < n; i++ {
				sb = append(sb, rs[tp.Choose(len(rs))])
			}
			b.name = string(sb)
		case 0:
			b.name = ""
		case 1:
			b.name = "Steve"
		case 2:
			b.name = "\xe7\x8e\xa9\xe5\xae\xb6" + string(rune('A'+tp.Choose(26)))
		case 3:
			b.name = "ABCDEFGHIJKLMNOP"[:1+tp.Choose(16)]
		default:
			n := 1 + tp.Choose(16)
			bs := make([]byte, n)
			for i := range bs {
				bs[i] = "abcdefghijklmnopqrstuvwxyz_0123456789"[tp.Choose(37)]
			}
			b.name = string(bs)
		}
		if !names[b.name] {
			names[b.name] = true
			break
		}
	}
	b.addr = "sim.example:25565"
	if tp.Bool(1, 5) {
		b.addr = "sim.example"
		pNoPort.Hit()
	}
	b.linked = tp.Bool(1, 2)
	// server -> bot script
	nS := tp.Pick(2, 5, 4, 2)
	switch nS {
	case 0:
		nS = 0
	case 1:
		nS = 1 + tp.Choose(6)
	case 2:
		nS = 1 + tp.Choose(30)
	default:
		nS = 1 + tp.Choose(200)
	}
	bundle := -1
	nb := 0
	for i := 0; i < nS; i++ {
		// bundle layout: open/close groups at random, back-to-back allowed
		if bundle < 0 && tp.Bool(1, 6) {
			bundle = nb
			nb++
		} else if bundle >= 0 && tp.Bool(1, 3) {
			bundle = -1
			if tp.Bool(1, 3) {
				bundle = nb
				nb++
			}
		}
		id := s2cIDs[tp.Choose(len(s2cIDs))]
		l := gen.PayloadLen(tp, threshold, id, 2000)
		b.s2c = append(b.s2c, spkt{id, gen.Fill(tp, l, 10+idx, i), bundle})
	}
	if tp.Bool(1, 6) && nS > 0 {
		// an empty bundle (two delimiters back to back) in front of a packet that
		// does not continue a bundle
		i := tp.Choose(nS)
		if i == 0 || b.s2c[i].bundle < 0 || b.s2c[i].bundle != b.s2c[i-1].bundle {
			b.quiesce[-2-i] = true
		}
	}
	for k := 0; k < nb; k++ {
		if tp.Bool(1, 4) && len(b.quiesce) < 3 {
			b.quiesce[k] = true
		}
	}
	// bot -> server script
	nC := tp.Pick(3, 4, 2)
	switch nC {
	case 1:
		nC = 1 + tp.Choose(8)
	case 2:
		nC = 1 + tp.Choose(60)
	}
	for i := 0; i < nC; i++ {
		id := gen.PacketID(tp)
		b.c2s = append(b.c2s, spkt{id, gen.Fill(tp, gen.PayloadLen(tp, threshold, id, 2000), 20+idx, i), -1})
	}
	if threshold >= 0 && tp.Bool(1, 100) {
		// one play packet close to the protocol maximum whose content does not
		// compress (its frame is longer than its data)
		pHugePlay.Hit()
		data := make([]byte, 1<<21-5-tp.Choose(700))
		x := tp.U64() | 1
		for i := range data {
			x ^= x << 13
			x ^= x >> 7
			x ^= x << 17
			data[i] = byte(x)
		}
		if tp.Bool(1, 2) {
			b.s2c = append(b.s2c, spkt{s2cIDs[tp.Choose(len(s2cIDs))], data, -1})
		} else {
			b.c2s = append(b.c2s, spkt{gen.PacketID(tp), data, -1})
		}
	}
	// handlers: one generic observer always; 0..6 more generic, 0..6 per id
	b.handlers = append(b.handlers, handlerCfg{generic: true, priority: prio(tp), park: true})
	nGen := tp.Choose(7)
	if tp.Bool(1, 8) {
		// large tables: sorting algorithms switch strategy above a dozen elements
		nGen = 12 + tp.Choose(14)
	}
	for i := nGen; i > 0; i-- {
		b.handlers = append(b.handlers, handlerCfg{generic: true, priority: prio(tp), park: tp.Bool(1, 3)})
	}
	for i := tp.Choose(7); i > 0; i-- {
		b.handlers = append(b.handlers, handlerCfg{id: s2cIDs[tp.Choose(len(s2cIDs))], priority: prio(tp), park: tp.Bool(1, 3), reply: tp.Bool(1, 4)})
	}
	for i := range b.handlers {
		for j := 0; j < i; j++ {
			if b.handlers[i].priority == b.handlers[j].priority && b.handlers[i].generic == b.handlers[j].generic && (b.handlers[i].generic || b.handlers[i].id == b.handlers[j].id) {
				pPriorityTie.Hit()
			}
		}
	}
	// random registration order
	for i := len(b.handlers) - 1; i > 0; i-- {
		j := tp.Choose(i + 1)
		b.handlers[i], b.handlers[j] = b.handlers[j], b.handlers[i]
	}
	for rem := len(b.handlers); rem > 0; {
		n := 1 + tp.Choose(rem)
		if tp.Bool(1, 2) {
			n = 1
		}
		b.batches = append(b.batches, n)
		rem -= n
	}
	if tp.Bool(1, 5) && nS > 0 {
		b.failAt = tp.Choose((2 + nGen/2) * nS)
		b.resume = tp.Bool(1, 2)
	}
	b.configExt = tp.Choose(3)
	return b
}

// expInv is one expected handler invocation.
type expInv struct {
	h      int
	pkt    int
	bundle int
}

// expected is the reference dispatch: the concatenation over the script of
// each packet's handler order. A handler failure (failAt) ends it - or, when
// the bot resumes HandleGame after the PacketHandlerError, skips the remaining
// handlers of that packet and the rest of its bundle (the bundle had been
// read completely before dispatch started) and continues with the next packet.
// replies lists the payload sums the replying handlers send back.
func (b *botSim) expected() (log []expInv, replies []uint64, failed bool) {
	skipBundle := -1
	for k, s := range b.s2c {
		if skipBundle >= 0 && s.bundle == skipBundle {
			continue
		}
		skipBundle = -1
		for _, h := range b.expectedOrder(s.id) {
			log = append(log, expInv{h, k, s.bundle})
			if len(log)-1 == b.failAt {
				failed = true
				if !b.resume {
					return
				}
				skipBundle = s.bundle
				break
			}
			if b.handlers[h].reply {
				replies = append(replies, sum(s.data))
			}
		}
	}
	return
}

func (b *botSim) expectedReplies() []uint64 {
	_, r, _ := b.expected()
	return r
}

// expected handler order for a packet id (indices into b.handlers): generic
// before id-specific, each by descending priority, registration order on ties.
func (b *botSim) expectedOrder(id int32) []int {
	var g, s []int
	for i, h := range b.handlers {
		if h.generic {
			g = append(g, i)
		} else if h.id == id {
			s = append(s, i)
		}
	}
	byPrio := func(x []int) {
		sort.SliceStable(x, func(i, j int) bool { return b.handlers[x[i]].priority > b.handlers[x[j]].priority })
	}
	byPrio(g)
	byPrio(s)
	return append(g, s...)
}

// ---------------------------------------------------------------- server stubs

type gamePlay struct {
	w    *kernel.World
	c    *harness.Ctx
	bots map[string]*botSim
	pl   *server.PlayerList
}

type plClient struct{}

func (plClient) SendDisconnect(chat.Message) {}

func (g *gamePlay) AcceptPlayer(name string, id uuid.UUID, _ *user.PublicKey, _ []user.Property, protocol int32, conn *mcnet.Conn) {
	b := g.bots[name]
	if b == nil {
		g.c.Fail("gate.identity", "server", "unknown-name", "AcceptPlayer called with name %q which no bot uses", name)
		return
	}
	b.setAccepted(name, id, protocol)
	cl := &plClient{}
	g.pl.ClientJoin(cl, server.PlayerSample{Name: name, ID: id})
	defer g.pl.ClientLeft(cl)
	// configuration: whatever the bot answers, up to its finish acknowledgement
	for {
		var p pk.Packet
		if err := conn.ReadPacket(&p); err != nil {
			b.setSrvReadErr(fmt.Errorf("waiting for the configuration acknowledgement: %w", err))
			return
		}
		nCfg := b.addConfigGot(p.ID)
		if packetid.ServerboundPacketID(p.ID) == packetid.ServerboundConfigFinishConfiguration {
			break
		}
		if nCfg > 8 {
			b.setSrvReadErr(errors.New("no configuration acknowledgement among the first packets"))
			return
		}
	}
	var wg simsync.WaitGroup
	wg.Add(1)
	g.w.Go(fmt.Sprintf("srv-read%d", b.idx), func() {
		defer wg.Done()
		for n := len(b.c2s) + len(b.expectedReplies()); n > 0; n-- {
			var p pk.Packet
			if err := conn.ReadPacket(&p); err != nil {
				b.setSrvReadErr(err)
				return
			}
			b.addSrvGot(p)
		}
	})
	delim := pk.Packet{ID: int32(packetid.BundleDelimiter)}
	cur := -1
	write := func(p pk.Packet) bool {
		if err := conn.WritePacket(p); err != nil {
			b.setSendErr(err)
			return false
		}
		return true
	}
	closeBundle := func() bool {
		if cur < 0 {
			return true
		}
		if b.quiesce[cur] {
			// withhold the closing delimiter until the world is quiescent:
			// none of the bundled packets may have been dispatched
			pBundleQuiescence.Hit()
			before := b.logLen()
			g.w.WaitIdle("harness.bundle.quiescence")
			if n := b.bundleEarly(cur); n > 0 {
				b.setEarly(fmt.Sprintf("%d handler invocations for packets of bundle %d happened before its closing delimiter was sent (log length %d -> %d)", n, cur, before, b.logLen()))
			}
		}
		b.setDelimStamp(cur, g.w.Seq())
		cur = -1
		return write(delim)
	}
	for i, s := range b.s2c {
		if b.quiesce[-2-i] {
			pBundleEmpty.Hit()
			if !closeBundle() || !write(delim) || !write(delim) {
				break
			}
		}
		if s.bundle != cur {
			if !closeBundle() {
				break
			}
			if s.bundle >= 0 {
				cur = s.bundle
				if !write(delim) {
					break
				}
			}
		}
		if !write(pk.Packet{ID: s.id, Data: s.data}) {
			break
		}
	}
	closeBundle()
	wg.Wait()
}

//go:norace
func (b *botSim) logLen() int { return len(b.log) }

// bundleEarly counts log entries that belong to packets of the given bundle.
//
//go:norace
func (b *botSim) bundleEarly(bundle int) int {
	// packets before the bundle produce a known number of invocations
	before := 0
	for _, s := range b.s2c {
		if s.bundle == bundle {
			break
		}
		before += len(b.expectedOrder(s.id))
	}
	if len(b.log) > before {
		return len(b.log) - before
	}
	return 0
}

type configStub struct{ bots func(conn *mcnet.Conn) int }

func (c configStub) AcceptConfig(conn *mcnet.Conn) error {
	switch c.bots(conn) {
	case 1:
		pConfigExtras.Hit()
		if err := conn.WritePacket(pk.Marshal(packetid.ClientboundConfigPing, pk.Int(0x1234567))); err != nil {
			return err
		}
	case 2:
		pConfigExtras.Hit()
		if err := conn.WritePacket(pk.Marshal(packetid.ClientboundConfigCustomPayload, pk.Identifier("minecraft:brand"), pk.PluginMessageData("sim"))); err != nil {
			return err
		}
	}
	return conn.WritePacket(pk.Marshal(packetid.ClientboundConfigFinishConfiguration))
}

type refuser struct{ names map[string]bool }

func (r refuser) CheckPlayer(name string, _ uuid.UUID, _ int32) (bool, chat.Message) {
	if r.names[name] {
		return false, chat.Text("you are not on the list")
	}
	return true, chat.Message{}
}

type pingHandler struct {
	*server.PingInfo
	*server.PlayerList
	st *statusState
}

// Description is different on every call: the status answer has to be
// produced from the handler at the time of the ping, not from an earlier one.
func (h pingHandler) Description() *chat.Message {
	m := *h.PingInfo.Description()
	m.Text = h.st.nextDesc(m.Text)
	return &m
}

type dialer struct {
	w        *kernel.World
	srv      *server.Server
	b        *botSim
	cfgAB    simnet.LinkCfg
	cfgBA    simnet.LinkCfg
	byConn   *connTable
	listener *simnet.Listener
}

// connTable maps server-side conns to bots (no Go map: written and read by
// different tasks, and runtime map access is race-instrumented).
type connTable struct {
	conns []net.Conn // server-side sockets
	bots  []*botSim
}

//go:norace
func (t *connTable) add(c net.Conn, b *botSim) {
	t.conns = append(t.conns, c)
	t.bots = append(t.bots, b)
}

//go:norace
func (t *connTable) find(c *mcnet.Conn) *botSim {
	for i := range t.conns {
		if t.conns[i] == c.Socket {
			return t.bots[i]
		}
	}
	return nil
}

//go:norace
func (b *botSim) setAccepted(name string, id uuid.UUID, proto int32) {
	b.accName, b.accID, b.accProto = name, id, proto
	b.accepted++
}

//go:norace
func (b *botSim) setSrvReadErr(err error) { b.srvReadErr = err }

//go:norace
func (b *botSim) addConfigGot(id int32) int {
	b.configGot = append(b.configGot, id)
	return len(b.configGot)
}

//go:norace
func (b *botSim) addSrvGot(p pk.Packet) {
	d := make([]byte, len(p.Data))
	for i := range d {
		d[i] = p.Data[i]
	}
	b.srvGot = append(b.srvGot, spkt{p.ID, d, -1})
}

//go:norace
func (b *botSim) setSendErr(err error) {
	if b.sendErr == nil {
		b.sendErr = err
	}
}

//go:norace
func (b *botSim) setEarly(s string) { b.early = s }

//go:norace
func (b *botSim) setCorrupt(s string) { b.corrupt = s }

//go:norace
func (b *botSim) setDelimStamp(bundle int, stamp int64) {
	b.delimBundle = append(b.delimBundle, bundle)
	b.delimAt = append(b.delimAt, stamp)
}

//go:norace
func (b *botSim) delimStampOf(bundle int) (int64, bool) {
	for i := len(b.delimBundle) - 1; i >= 0; i-- {
		if b.delimBundle[i] == bundle {
			return b.delimAt[i], true
		}
	}
	return 0, false
}

//go:norace
func (b *botSim) setLink(l *simnet.Link) { b.link = l }

//go:norace
func (b *botSim) getLink() *simnet.Link { return b.link }

//go:norace
func (b *botSim) setJoinErr(err error) { b.joinErr = err }

//go:norace
func (b *botSim) setJoined(name string, id uuid.UUID) {
	b.joined = true
	b.cliName, b.cliUUID = name, id
}

//go:norace
func (b *botSim) setGame(err error) { b.gameErr, b.gameReturned = err, true }

//go:norace
func (b *botSim) setHandlerErr(err error) {
	if b.handlerErr == nil {
		b.handlerErr = err
	}
}

type statusResult struct {
	json  []byte
	err   error
	link  *simnet.Link
	descs []string // what the handler's Description returned while this ping was answered (nil = never asked)
}

type statusState struct {
	results []statusResult
	link    *simnet.Link
	calls   int
	cur     []string
}

//go:norace
func (s *statusState) setLink(l *simnet.Link) { s.link, s.cur = l, nil }

//go:norace
func (s *statusState) set(j []byte, err error) {
	s.results = append(s.results, statusResult{json: j, err: err, link: s.link, descs: s.cur})
}

//go:norace
func (s *statusState) nextDesc(base string) string {
	s.calls++
	d := fmt.Sprintf("%s #%d", base, s.calls)
	s.cur = append(s.cur, d)
	return d
}

func (d *dialer) DialMCContext(ctx context.Context, addr string) (*mcnet.Conn, error) {
	link := simnet.Pipe(d.w, fmt.Sprintf("bot%d", d.b.idx), d.cfgAB, d.cfgBA)
	d.b.setLink(link)
	d.byConn.add(link.B, d.b)
	if d.listener != nil {
		// the real accept loop (Server.Listen) picks the connection up
		d.listener.Push(link.B)
	} else {
		sc := mcnet.WrapConn(link.B)
		d.w.Go(fmt.Sprintf("server%d", d.b.idx), func() { d.srv.AcceptConn(sc) })
	}
	return mcnet.WrapConn(link.A), nil
}

// ---------------------------------------------------------------- scenario

func scenarioWorld(c *harness.Ctx) {
	tp := c.T
	threshold := gen.Threshold(tp, false)
	if threshold >= 0 {
		pJoinCompressed.Hit()
	} else {
		pJoinPlain.Hit()
	}
	nBots := 1 + tp.Pick(6, 2, 1)
	if nBots >= 2 {
		pMultiBot.Hit()
	}
	names := map[string]bool{}
	var bots []*botSim
	for i := 0; i < nBots; i++ {
		bots = append(bots, drawBot(tp, i, threshold, names))
	}
	// A list of generic handlers shared by all bots, registered by each of them
	// from ONE slice (with spare capacity) before its own handlers - the way an
	// application with several clients sets up its common listeners.
	var common []handlerCfg
	if nBots >= 2 && tp.Bool(1, 2) {
		pSharedHandlers.Hit()
		for i := 1 + tp.Choose(3); i > 0; i-- {
			common = append(common, handlerCfg{generic: true, priority: prio(tp)})
		}
		for _, b := range bots {
			b.handlers = append(append([]handlerCfg(nil), common...), b.handlers...)
			b.nCommon = len(common)
		}
	}
	for _, b := range bots {
		if tp.Bool(1, 4) {
			var u uuid.UUID
			copy(u[:], tp.Bytes(16))
			u[6], u[8] = u[6]&0x0f|0x40, u[8]&0x3f|0x80 // a plausible v4 profile id
			b.claimed = u.String()
			pClaimedUUID.Hit()
		}
	}
	refuseNames := map[string]bool{}
	for _, b := range bots {
		if tp.Bool(1, 6) {
			b.refuse = true
			refuseNames[b.name] = true
			pRefused.Hit()
		}
	}
	statusMode := tp.Choose(4)     // 0 none, 1 at start, 2 concurrently, 3 after all joined
	nPings := 1 + tp.Pick(3, 2, 1) // several pings against the same server, one after the other
	listenMode := tp.Bool(1, 2)    // connections arrive through the real Server.Listen accept loop
	withDeadline := tp.Bool(1, 2)
	var icon image.Image
	if tp.Bool(1, 3) {
		icon = image.NewRGBA(image.Rect(0, 0, 64, 64))
	}
	motd := chat.Text("simulated \"world\" <" + string(rune('a'+tp.Choose(26))) + ">")
	if tp.Bool(1, 2) {
		motd.Bold = true
		motd.Color = "gold"
	}
	maxPlayers := nBots + tp.Choose(20)
	cfgs := make([][2]simnet.LinkCfg, nBots)
	for i, b := range bots {
		total := 200
		for _, s := range b.s2c {
			total += len(s.data) + 8
		}
		cfgs[i][1] = simnet.DrawCfgFor(tp, total)
		total = 200
		for _, s := range b.c2s {
			total += len(s.data) + 8
		}
		cfgs[i][0] = simnet.DrawCfgFor(tp, total)
	}
	// During the join both ends are single-threaded and may write a few small
	// messages before reading; a receive window smaller than those messages
	// would deadlock the stubs' own configuration traffic (as it would over
	// net.Pipe). Back-pressure is therefore kept above the handshake size.
	for i := range cfgs {
		for d := 0; d < 2; d++ {
			if cfgs[i][d].Window > 0 && cfgs[i][d].Window < 512 {
				cfgs[i][d].Window = 512
			}
		}
	}
	statusCfg := [2]simnet.LinkCfg{simnet.DrawCfgFor(tp, 200), simnet.DrawCfgFor(tp, 2000)}
	for d := 0; d < 2; d++ {
		if statusCfg[d].Window > 0 && statusCfg[d].Window < 512 {
			statusCfg[d].Window = 512
		}
	}
	c.Config["threshold"] = threshold
	c.Config["bots"] = nBots
	c.Config["status_mode"] = statusMode
	c.Config["listen_mode"] = listenMode
	for _, b := range bots {
		var prios []string
		for _, h := range b.handlers {
			if h.generic {
				prios = append(prios, fmt.Sprintf("g:p%d", h.priority))
			} else {
				prios = append(prios, fmt.Sprintf("id%d:p%d", h.id, h.priority))
			}
		}
		var layout []int
		for _, s := range b.s2c {
			layout = append(layout, s.bundle)
		}
		c.Config[fmt.Sprintf("bot%d", b.idx)] = map[string]any{"bundle_layout": layout, "quiesce": fmt.Sprint(b.quiesce), "name": b.name, "linked_queue": b.linked, "s2c": len(b.s2c), "c2s": len(b.c2s),
			"handlers": prios, "batches": b.batches, "fail_at": b.failAt, "resume": b.resume, "refuse": b.refuse}
	}

	var (
		status       = &statusState{}
		statusOnline [2]int
		pl           *server.PlayerList
		pingInfo     *server.PingInfo
	)
	out, w := c.World(func(w *kernel.World) {
		w.MaxSteps = 2_000_000
		w.Drain = true // server tasks started by the accept loop are daemons: let them finish
		pl = server.NewPlayerList(maxPlayers)
		pingInfo = server.NewPingInfo("sim-1.21", bot.ProtocolVersion, motd, icon)
		gp := &gamePlay{w: w, c: c, bots: map[string]*botSim{}, pl: pl}
		for _, b := range bots {
			gp.bots[b.name] = b
		}
		byConn := &connTable{}
		commonHs := make([]bot.PacketHandler, 0, len(common)+8)
		for ci, h := range common {
			ci, h := ci, h
			commonHs = append(commonHs, bot.PacketHandler{Priority: h.priority, F: func(p pk.Packet) error {
				// which bot is dispatching is known from the running task ("bot<idx>")
				var bb *botSim
				if t := w.Me(); t != nil {
					for _, cand := range bots {
						if t.Name == fmt.Sprintf("bot%d", cand.idx) {
							bb = cand
						}
					}
				}
				if bb == nil {
					c.Fail("gate.dispatch", "handlers", "foreign-task", "a shared handler ran outside any bot's HandleGame task")
					return nil
				}
				if n := bb.invoked(ci, p, w.Seq()); n == bb.failAt {
					pHandlerError.Hit()
					return errHandler
				}
				return nil
			}})
		}
		srv := &server.Server{
			ListPingHandler: pingHandler{pingInfo, pl, status},
			LoginHandler: &server.MojangLoginHandler{OnlineMode: false, Threshold: threshold,
				LoginChecker: refuser{refuseNames}},
			ConfigHandler: configStub{bots: func(conn *mcnet.Conn) int {
				if b := byConn.find(conn); b != nil {
					return b.configExt
				}
				return 0
			}},
			GamePlay: gp,
		}
		var listener *simnet.Listener
		if listenMode {
			pListen.Hit()
			listener = simnet.NewListener(w, "sim.example:25565")
			simnet.Listen = func(network, address string) (net.Listener, error) { return listener, nil }
			w.GoDaemon("accept-loop", func() { _ = srv.Listen("sim.example:25565") })
		}
		var joinedWG simsync.WaitGroup
		joinedWG.Add(nBots)
		doStatus := func() {
			pStatus.Hit()
			sl := simnet.Pipe(w, "status", statusCfg[0], statusCfg[1])
			status.setLink(sl)
			if listener != nil {
				listener.Push(sl.B)
			} else {
				sc := mcnet.WrapConn(sl.B)
				w.Go("server-status", func() { srv.AcceptConn(sc) })
			}
			ctx := context.Background()
			if withDeadline {
				pStatusDeadline.Hit()
				var cancel context.CancelFunc
				ctx, cancel = context.WithTimeout(ctx, 10*time.Minute)
				defer cancel()
			}
			j, _, perr := pingAndList(ctx, "sim.example:25565", mcnet.WrapConn(sl.A))
			status.set(j, perr)
		}
		if statusMode != 0 {
			w.Go("pinger", func() {
				if statusMode == 3 {
					joinedWG.Wait()
				}
				for k := 0; k < nPings; k++ {
					doStatus()
					for y := tp.Choose(4); y > 0; y-- {
						w.Yield("harness.pinger")
					}
				}
			})
		}
		for i, b := range bots {
			b := b
			i := i
			w.Go(fmt.Sprintf("bot%d", b.idx), func() {
				joinedSignalled := false
				signal := func() {
					if !joinedSignalled {
						joinedSignalled = true
						joinedWG.Done()
					}
				}
				defer signal()
				client := bot.NewClient()
				client.Auth.Name = b.name
				client.Auth.UUID = b.claimed
				// handlers, registered in tape-chosen batches
				if b.nCommon > 0 {
					client.Events.AddGeneric(commonHs...)
				}
				var hs []bot.PacketHandler
				for hi, h := range b.handlers {
					if hi < b.nCommon {
						continue
					}
					hi, h := hi, h
					hs = append(hs, bot.PacketHandler{ID: packetid.ClientboundPacketID(h.id), Priority: h.priority, F: func(p pk.Packet) error {
						n := b.invoked(hi, p, w.Seq())
						if h.park {
							before := sum(p.Data)
							w.Yield("harness.handler")
							if sum(p.Data) != before {
								b.setCorrupt(fmt.Sprintf("payload of packet id=%d changed while handler %d was running (buffer returned to the pool too early?)", p.ID, hi))
							}
						}
						if n == b.failAt {
							pHandlerError.Hit()
							return errHandler
						}
						if h.reply {
							pHandlerReply.Hit()
							var d [8]byte
							binary.BigEndian.PutUint64(d[:], sum(p.Data))
							if err := client.Conn.WritePacket(pk.Packet{ID: replyID, Data: d[:]}); err != nil {
								b.setSendErr(fmt.Errorf("reply from inside a handler: %w", err))
							}
						}
						return nil
					}})
				}
				off := 0
				for _, n := range b.batches {
					batch := hs[off : off+n]
					off += n
					var g, s []bot.PacketHandler
					for k, h := range batch {
						if b.handlers[b.nCommon+off-n+k].generic {
							g = append(g, h)
						} else {
							s = append(s, h)
						}
					}
					// keep registration order across the two calls irrelevant: generic and
					// specific handlers live in different tables
					if len(g) > 0 {
						client.Events.AddGeneric(g...)
					}
					if len(s) > 0 {
						client.Events.AddListener(s...)
					}
				}
				var qr, qw queue.Queue[pk.Packet]
				if b.linked {
					pLinkedQueue.Hit()
					qr, qw = queue.NewLinkedQueue[pk.Packet](), queue.NewLinkedQueue[pk.Packet]()
				} else {
					pChannelQueue.Hit()
					qr = queue.NewChannelQueue[pk.Packet](len(b.s2c)*2 + 64)
					qw = queue.NewChannelQueue[pk.Packet](len(b.c2s) + len(b.expectedReplies()) + 8)
				}
				d := &dialer{w: w, srv: srv, b: b, cfgAB: cfgs[i][0], cfgBA: cfgs[i][1], byConn: byConn, listener: listener}
				jerr := client.JoinServerWithOptions(b.addr, bot.JoinOptions{MCDialer: d, QueueRead: qr, QueueWrite: qw})
				b.setJoinErr(jerr)
				if jerr != nil {
					if l := b.getLink(); l != nil {
						l.A.Close()
					}
					return
				}
				b.setJoined(client.Name, client.UUID)
				signal()
				var swg simsync.WaitGroup
				swg.Add(1)
				w.Go(fmt.Sprintf("bot-send%d", b.idx), func() {
					defer swg.Done()
					for _, s := range b.c2s {
						if tp.Bool(1, 4) {
							w.Yield("harness.sender")
						}
						if err := client.Conn.WritePacket(pk.Packet{ID: s.id, Data: s.data}); err != nil {
							b.setSendErr(fmt.Errorf("bot WritePacket: %w", err))
							return
						}
					}
				})
				gerr := client.HandleGame()
				if b.resume {
					// the example bots' loop: a handler's error is reported and the
					// game goes on
					for n := 0; n < 4; n++ {
						var he bot.PacketHandlerError
						if !errors.As(gerr, &he) {
							break
						}
						b.setHandlerErr(gerr)
						gerr = client.HandleGame()
					}
				}
				b.setGame(gerr)
				swg.Wait()
				client.Close()
			})
		}
	})
	simnet.Listen = nil
	if c.Infra != "" {
		return
	}
	c.TaskPanics(w, "gate")
	if c.Failed() {
		return
	}
	if out != kernel.OutDone {
		c.Fail("gate.liveness", "world", fmt.Sprint(out), "the world did not complete within the step budget (threshold %d): outcome %v, blocked: %v, steps %d", threshold, out, w.DeadlockAt, w.Steps)
		return
	}
	for _, b := range bots {
		tag := fmt.Sprintf("bot%d(%q)", b.idx, b.name)
		c.Fold(uint64(len(b.log)), uint64(len(b.srvGot)), uint64(b.accepted))
		if b.refuse {
			if b.joinErr == nil {
				c.Fail("gate.refuse", "bot", "joined", "%s: the login checker refused the player but the bot's join returned nil", tag)
				return
			}
			if b.accepted != 0 {
				c.Fail("gate.refuse", "server", "accept-player-called", "%s: AcceptPlayer was called for a refused player", tag)
				return
			}
			continue
		}
		if b.joinErr != nil {
			c.Fail("gate.join", "bot", "error", "%s: join failed (threshold %d): %v", tag, threshold, b.joinErr)
			return
		}
		if b.accepted != 1 {
			c.Fail("gate.join", "server", "accept-player-count", "%s: AcceptPlayer called %d times", tag, b.accepted)
			return
		}
		want := refOfflineUUID(b.name)
		if b.accName != b.name || b.cliName != b.name {
			c.Fail("gate.identity", "name", "mismatch", "%s: server got name %q, client has %q", tag, b.accName, b.cliName)
			return
		}
		if b.accID != want || b.cliUUID != want {
			c.Fail("gate.identity", "uuid", "mismatch", "%s: offline UUID is %v, server got %v, client has %v", tag, want, b.accID, b.cliUUID)
			return
		}
		if b.accProto != bot.ProtocolVersion {
			c.Fail("gate.identity", "protocol", "mismatch", "%s: server got protocol %d, the bot speaks %d", tag, b.accProto, bot.ProtocolVersion)
			return
		}
		// reference dispatch
		expLog, _, failed := b.expected()
		stopped := failed && !b.resume
		if failed && b.resume {
			pResumed.Hit()
		}
		if !stopped {
			// (after an injected handler failure the bot stops and closes the
			// connection, so the remaining traffic legitimately fails)
			if b.srvReadErr != nil {
				c.Fail("gate.play", "c2s", "read-error", "%s: server-side read failed after %d of %d packets: %v", tag, len(b.srvGot), len(b.c2s), b.srvReadErr)
				return
			}
			if b.sendErr != nil {
				c.Fail("gate.play", "send", "error", "%s: %v", tag, b.sendErr)
				return
			}
			// two ordered streams share the connection: the sender task's script and
			// the replies sent from inside handlers; each must arrive intact, in order
			var scripted, replies []spkt
			for _, g := range b.srvGot {
				if g.id == replyID && len(g.data) == 8 {
					replies = append(replies, g)
				} else {
					scripted = append(scripted, g)
				}
			}
			for i, s := range b.c2s {
				if i >= len(scripted) || scripted[i].id != s.id || !bytes.Equal(scripted[i].data, s.data) {
					c.Fail("gate.play", "c2s", "mismatch", "%s: packet %d sent by the bot (id=%d, %d bytes) did not arrive intact and in order at the server (%d arrived)", tag, i, s.id, len(s.data), len(scripted))
					return
				}
			}
			wantReplies := b.expectedReplies()
			if len(replies) != len(wantReplies) {
				c.Fail("gate.play", "c2s", "reply-count", "%s: %d packets written from inside handlers arrived at the server, %d were written", tag, len(replies), len(wantReplies))
				return
			}
			for i, r := range replies {
				if binary.BigEndian.Uint64(r.data) != wantReplies[i] {
					c.Fail("gate.play", "c2s", "reply-order", "%s: reply %d written from inside a handler arrived out of order or altered", tag, i)
					return
				}
			}
		}
		if b.corrupt != "" {
			c.Fail("gate.play", "s2c", "payload-changed-during-dispatch", "%s: %s", tag, b.corrupt)
			return
		}
		if b.early != "" {
			c.Fail("gate.bundle", "dispatch", "before-closing-delimiter", "%s: %s", tag, b.early)
			return
		}
		if !b.gameReturned {
			c.Fail("gate.liveness", "bot", "handlegame", "%s: HandleGame never returned", tag)
			return
		}
		for i, e := range expLog {
			if i >= len(b.log) {
				c.Fail("gate.dispatch", "handlers", "missing", "%s: expected %d handler invocations, observed %d: invocation %d (handler %d for packet %d id=%d) never happened; HandleGame returned %v", tag, len(expLog), len(b.log), i, e.h, e.pkt, b.s2c[e.pkt].id, b.gameErr)
				return
			}
			got := b.log[i]
			s := b.s2c[e.pkt]
			if got.handler != e.h {
				c.Fail("gate.dispatch", "handlers", "order", "%s: invocation %d for packet %d (id=%d): handler %d (%+v) ran where the reference order (generic before id-specific, descending priority, registration order on ties) has handler %d (%+v)", tag, i, e.pkt, s.id, got.handler, b.handlers[got.handler], e.h, b.handlers[e.h])
				return
			}
			if got.id != s.id || got.n != len(s.data) || got.sum != sum(s.data) {
				c.Fail("gate.play", "s2c", "mismatch", "%s: handler %d saw packet id=%d len=%d where packet %d of the script (id=%d len=%d) was expected", tag, got.handler, got.id, got.n, e.pkt, s.id, len(s.data))
				return
			}
			if e.bundle >= 0 {
				pBundle.Hit()
				if st, ok := b.delimStampOf(e.bundle); !ok || got.stamp < st {
					c.Fail("gate.bundle", "dispatch", "before-closing-delimiter", "%s: packet %d of bundle %d was dispatched (event %d) before the closing delimiter was sent (event %d)", tag, e.pkt, e.bundle, got.stamp, st)
					return
				}
			}
		}
		if len(b.log) > len(expLog) {
			extra := b.log[len(expLog)]
			detail := "extra"
			if failed {
				detail = "after-handler-error"
			}
			c.Fail("gate.dispatch", "handlers", detail, "%s: %d handler invocations observed, %d expected; first extra: handler %d on packet id=%d (handler failure injected at invocation %d: %v)", tag, len(b.log), len(expLog), extra.handler, extra.id, b.failAt, failed)
			return
		}
		if failed {
			first := b.gameErr
			if b.resume {
				first = b.handlerErr
			}
			if !errors.Is(first, errHandler) {
				c.Fail("gate.dispatch", "handlegame", "error-not-propagated", "%s: a handler failed at invocation %d but HandleGame returned %v", tag, b.failAt, first)
				return
			}
		}
		// (what HandleGame returns when the server simply closes the connection is
		// not part of the statement; that it returns at all is the liveness oracle)
	}
	if statusMode != 0 {
		if len(status.results) != nPings {
			c.Fail("gate.status", "ping", "hang", "%d of %d status pings returned", len(status.results), nPings)
			return
		}
		if nPings > 1 {
			pStatusRepeated.Hit()
		}
		for k, r := range status.results {
			if r.err != nil {
				c.Fail("gate.status", "ping", "error", "PingAndList %d failed: %v", k, r.err)
				return
			}
			checkStatus(c, r.json, pingInfo, pl, bots, maxPlayers, statusOnline, r.link, r.descs, k)
			if c.Failed() {
				return
			}
		}
	}
}

func checkStatus(c *harness.Ctx, raw []byte, pi *server.PingInfo, pl *server.PlayerList, bots []*botSim, maxPlayers int, online [2]int, link *simnet.Link, descs []string, k int) {
	var got struct {
		Version struct {
			Name     string `json:"name"`
			Protocol int    `json:"protocol"`
		} `json:"version"`
		Players struct {
			Max    int `json:"max"`
			Online int `json:"online"`
			Sample []struct {
				Name string    `json:"name"`
				ID   uuid.UUID `json:"id"`
			} `json:"sample"`
		} `json:"players"`
		Description any    `json:"description"`
		FavIcon     string `json:"favicon"`
	}
	if err := json.Unmarshal(raw, &got); err != nil {
		c.Fail("gate.status", "json", "invalid", "status response is not valid JSON: %v: %q", err, raw)
		return
	}
	c.Fold(uint64(len(got.FavIcon)), uint64(got.Players.Max))
	if got.Version.Name != pi.Name() || got.Version.Protocol != pi.Protocol(0) {
		c.Fail("gate.status", "json", "version", "status version %q/%d, handler says %q/%d", got.Version.Name, got.Version.Protocol, pi.Name(), pi.Protocol(0))
		return
	}
	if got.Players.Max != maxPlayers {
		c.Fail("gate.status", "json", "max", "status max players %d, handler says %d", got.Players.Max, maxPlayers)
		return
	}
	// players join and leave while the ping is in flight, so only the range is known
	_ = online
	if got.Players.Online < 0 || got.Players.Online > len(bots) {
		c.Fail("gate.status", "json", "online", "status online %d with %d bots in the world", got.Players.Online, len(bots))
		return
	}
	known := map[string]uuid.UUID{}
	for _, b := range bots {
		known[b.name] = refOfflineUUID(b.name)
	}
	for _, s := range got.Players.Sample {
		if id, ok := known[s.Name]; !ok || id != s.ID {
			c.Fail("gate.status", "json", "sample", "status sample contains %q/%v which is not a joined player", s.Name, s.ID)
			return
		}
	}
	// the description must be one the handler returned while this ping was being
	// answered (it may be asked more than once; every answer is different)
	if len(descs) == 0 {
		c.Fail("gate.status", "json", "handler-not-asked", "status ping %d was answered without asking the status handler for its description", k)
		return
	}
	descOK := false
	var wd any
	for _, d := range descs {
		wantMsg := *pi.Description()
		wantMsg.Text = d
		wantDesc, _ := json.Marshal(&wantMsg)
		wd = nil
		json.Unmarshal(wantDesc, &wd)
		if reflect.DeepEqual(wd, got.Description) {
			descOK = true
		}
	}
	if !descOK {
		c.Fail("gate.status", "json", "description", "status ping %d: description %v, the handler said %v while this ping was answered", k, got.Description, descs)
		return
	}
	if got.FavIcon != pi.FavIcon() {
		c.Fail("gate.status", "json", "favicon", "status favicon differs from the handler's (%d vs %d bytes)", len(got.FavIcon), len(pi.FavIcon()))
		return
	}
	// wire: the pong frame carries the ping's 8 bytes
	var ping, pong []byte
	rest := link.TapAB()
	for len(rest) > 0 {
		f, r, err := frame.Next(rest, false, -1)
		if err != nil {
			break
		}
		if f.ID == 1 && len(f.Payload) == 8 {
			ping = f.Payload
		}
		rest = r
	}
	rest = link.TapBA()
	for len(rest) > 0 {
		f, r, err := frame.Next(rest, false, -1)
		if err != nil {
			break
		}
		if f.ID == 1 {
			pong = f.Payload
		}
		rest = r
	}
	if ping == nil || !bytes.Equal(ping, pong) {
		c.Fail("gate.status", "pong", "payload", "ping payload %x, pong payload %x", ping, pong)
	}
}

// refOfflineUUID is the vanilla definition of an offline-mode UUID,
// independent of the library: UUID v3-style from MD5("OfflinePlayer:" + name).
func refOfflineUUID(name string) uuid.UUID {
	h := md5.Sum([]byte("OfflinePlayer:" + name))
	h[6] = h[6]&0x0f | 0x30
	h[8] = h[8]&0x3f | 0x80
	return uuid.UUID(h)
}

var prop = &harness.Property{
	ID: "C19",
	Scenarios: []harness.Scenario{
		{Name: "world", Weight: 1, Run: scenarioWorld},
	},
	Real: []string{"bot.Client.JoinServerWithOptions -> join -> joinLogin -> joinConfiguration -> warpConn", "bot.HandleGame/handleBundlePackets/handlePacket", "bot.Events.AddListener/AddGeneric", "bot.pingAndList",
		"server.Server.Listen accept loop (half of the worlds, over simnet.Listener)", "server.Server.AcceptConn -> handshake -> MojangLoginHandler.AcceptLogin (offline) / acceptListPing/listResp", "server.PlayerList", "server.PingInfo", "net.Conn", "net/queue (both)", "net/packet", "offline.NameToUUID"},
	Stub:        []string{"ConfigHandler (sends optional ping/custom payload, then FinishConfiguration)", "GamePlay (reads the acknowledgement, plays the scripted traffic)", "LoginChecker (refuses chosen names)", "MCDialer (hands out the simulated link)", "links, sync primitives, pools"},
	NotRun:      []string{"online-mode login (encryption, Mojang HTTP)", "server.KeepAlive", "real TCP sockets (the real Server.Listen accept loop runs in half of the worlds over a simulated net.Listener)"},
	Rule:        "one seeded world per run: 1-3 bots joining one server (threshold, names, queue kinds, 0-200 packets each way with sizes across the threshold, handler sets with tied priorities and random registration batches, bundle layouts incl. empty and back-to-back, optional handler failure, refused players, optional status ping at start/concurrently/after joining, with and without a context deadline) under the seeded scheduler and link schedules. Non-trivial = more context switches than tasks; distinct = (task, park-site) sequence hash",
	Assumptions: []string{"offline mode only", "bounded channel queues are sized so that they never refuse (refusal is the documented behaviour when full)", "packet ids sent to the bot are within the handler table (ids outside it are hostile input, C08)"},
}

func TestWorker(t *testing.T) { harness.Main(t, prop) }

var pListen = simrt.NewProbe("server.Listen.accept.loop.on.a.simulated.listener")

var pSharedHandlers = simrt.NewProbe("handlers.common.list.shared.by.several.bots(one.slice)")

var pStatusUnavailable = simrt.NewProbe("status.ping.entry.point.not.available(not.run)")

var pClaimedUUID = simrt.NewProbe("bot.claims.a.profile.uuid.in.login-hello")

var pHugePlay = simrt.NewProbe("play.packet.near.protocol.maximum.incompressible")

var pResumed = simrt.NewProbe("bot.resumed.HandleGame.after.a.handler.error")

var pLongUTF8Name = simrt.NewProbe("name.of.up.to.16.multi-byte.characters(>16.bytes)")

var pStatusRepeated = simrt.NewProbe("status.several.pings.against.one.server")
