// Package simio holds the single-ended fault-injecting reader and writer
// used where no scheduler is needed: a stream is delivered in simulator-chosen
// fragments and may fail at a simulator-chosen byte offset.
package simio

import (
	"errors"
	"io"
	"net"
	"time"
)

var ErrInjected = errors.New("simio: injected I/O error")

// FragReader delivers Data according to Cuts (fragment boundaries, strictly
// increasing stream offsets). A Read never returns more than up to the next
// cut. At offset FailAt (>=0) the stream fails with FailErr: either as
// (0, err) on the next read, or - if FailWithData - together with the last
// fragment before it.
type FragReader struct {
	Data         []byte
	Cuts         []int
	OneByte      bool // one byte per Read regardless of Cuts
	FailAt       int  // -1 = no failure; reads past len(Data) then give io.EOF
	FailErr      error
	FailWithData bool
	Pos          int
	Reads        int
	ZeroLenReads int
	ci           int
}

func (r *FragReader) limit() int {
	end := len(r.Data)
	if r.FailAt >= 0 && r.FailAt < end {
		end = r.FailAt
	}
	return end
}

func (r *FragReader) Read(p []byte) (int, error) {
	r.Reads++
	if len(p) == 0 {
		r.ZeroLenReads++
		return 0, nil
	}
	end := r.limit()
	if r.Pos >= end {
		if r.FailAt >= 0 && r.FailAt <= len(r.Data) {
			return 0, r.FailErr
		}
		return 0, io.EOF
	}
	n := end - r.Pos
	if r.OneByte {
		n = 1
	} else {
		for r.ci < len(r.Cuts) && r.Cuts[r.ci] <= r.Pos {
			r.ci++
		}
		if r.ci < len(r.Cuts) && r.Cuts[r.ci]-r.Pos < n {
			n = r.Cuts[r.ci] - r.Pos
		}
	}
	if n > len(p) {
		n = len(p)
	}
	copy(p, r.Data[r.Pos:r.Pos+n])
	r.Pos += n
	if r.FailWithData && r.FailAt >= 0 && r.Pos == end && r.FailAt <= len(r.Data) {
		return n, r.FailErr
	}
	return n, nil
}

// ByteFragReader additionally implements io.ByteReader (selects the
// ReadByte-based paths of the code under test).
type ByteFragReader struct{ FragReader }

func (r *ByteFragReader) ReadByte() (byte, error) {
	var b [1]byte
	n, err := r.FragReader.Read(b[:])
	if n == 1 {
		return b[0], nil
	}
	if err == nil {
		err = io.ErrNoProgress
	}
	return 0, err
}

// FaultWriter accepts bytes until FailAt bytes have been accepted; the write
// that crosses FailAt returns (accepted, Err). Sticky: every later write
// fails too; otherwise later writes succeed (transient), which catches an
// error that is dropped and then masked by later success.
type FaultWriter struct {
	FailAt int // -1 = never
	Sticky bool
	Err    error
	Buf    []byte
	Writes int
	Failed bool
	Total  int // bytes offered so far (accepted or not)
}

func (w *FaultWriter) Write(p []byte) (int, error) {
	w.Writes++
	if w.FailAt >= 0 {
		if w.Failed && w.Sticky {
			return 0, w.Err
		}
		if !w.Failed && len(w.Buf)+len(p) > w.FailAt {
			n := w.FailAt - len(w.Buf)
			w.Buf = append(w.Buf, p[:n]...)
			w.Failed = true
			return n, w.Err
		}
	}
	w.Buf = append(w.Buf, p...)
	return len(p), nil
}

// CapWriter is a FaultWriter that also offers the optional fast-path
// interfaces destinations commonly have (io.ByteWriter, io.StringWriter): code
// that type-switches on them takes another path, with the same faults.
type CapWriter struct {
	*FaultWriter
	ByteCalls, StringCalls int
}

func (w *CapWriter) WriteByte(c byte) error {
	w.ByteCalls++
	_, err := w.FaultWriter.Write([]byte{c})
	return err
}

func (w *CapWriter) WriteString(s string) (int, error) {
	w.StringCalls++
	return w.FaultWriter.Write([]byte(s))
}

// Conn adapts a reader and a writer to net.Conn (for RCONConn).
type Conn struct {
	R io.Reader
	W io.Writer
}

type addr struct{}

func (addr) Network() string { return "simio" }
func (addr) String() string  { return "simio" }

func (c *Conn) Read(p []byte) (int, error) {
	if c.R == nil {
		return 0, io.EOF
	}
	return c.R.Read(p)
}

func (c *Conn) Write(p []byte) (int, error) {
	if c.W == nil {
		return len(p), nil
	}
	return c.W.Write(p)
}
func (c *Conn) Close() error                       { return nil }
func (c *Conn) LocalAddr() net.Addr                { return addr{} }
func (c *Conn) RemoteAddr() net.Addr               { return addr{} }
func (c *Conn) SetDeadline(t time.Time) error      { return nil }
func (c *Conn) SetReadDeadline(t time.Time) error  { return nil }
func (c *Conn) SetWriteDeadline(t time.Time) error { return nil }
