// Package tape is the single source of every decision in a simulated run.
//
// A Tape is either *generating* (draws come from a splitmix64 stream seeded
// from one integer) or *replaying* (draws come from a stored vector; 0 once the
// vector is exhausted). Every draw is recorded so that a failing run can be
// minimised by editing the recorded vector and re-running.
//
// Nothing in this package reads a clock, a map, or any global randomness.
package tape

// Draw is one recorded decision.
type Draw struct {
	Bound uint64 // exclusive upper bound the caller asked for (0 = raw 64-bit)
	Val   uint64 // the value that was returned
}

type Tape struct {
	state  uint64
	replay bool
	in     []uint64
	pos    int
	Rec    []Draw
	// Limit, if non-zero, bounds the number of draws; afterwards every draw
	// returns 0 (keeps shrunk tapes from running away).
	Limit int
}

// New returns a generating tape for the given seed.
func New(seed uint64) *Tape {
	return &Tape{state: seed*0x9E3779B97F4A7C15 + 0x1234567}
}

// Replay returns a tape that reproduces the stored values.
func Replay(vals []uint64) *Tape {
	return &Tape{replay: true, in: vals}
}

//go:norace
func (t *Tape) next() uint64 {
	t.state += 0x9E3779B97F4A7C15
	z := t.state
	z = (z ^ (z >> 30)) * 0xBF58476D1CE4E5B9
	z = (z ^ (z >> 27)) * 0x94D049BB133111EB
	return z ^ (z >> 31)
}

// Choose returns a value in [0,n). n<=1 returns 0 without drawing.
//
//go:norace
func (t *Tape) Choose(n int) int {
	if n <= 1 {
		return 0
	}
	var v uint64
	if t.replay {
		if t.pos < len(t.in) {
			v = t.in[t.pos] % uint64(n)
		} else if t.pos > len(t.in)+2_000_000 {
			// a generator that loops until the tape gives a particular value never
			// terminates on an exhausted (all-zero) tape
			panic("tape: runaway replay (more than 2M draws past the end of the stored vector)")
		}
		t.pos++
	} else {
		if t.Limit > 0 && len(t.Rec) >= t.Limit {
			v = 0
		} else {
			v = t.next() % uint64(n)
		}
	}
	t.Rec = append(t.Rec, Draw{uint64(n), v})
	return int(v)
}

// Bool is true with probability num/den.
//
//go:norace
func (t *Tape) Bool(num, den int) bool {
	// value 0 must mean "false"/"no fault" so that shrinking simplifies.
	return t.Choose(den) >= den-num
}

// Range returns a value in [lo,hi].
//
//go:norace
func (t *Tape) Range(lo, hi int) int {
	if hi <= lo {
		return lo
	}
	return lo + t.Choose(hi-lo+1)
}

// U64 returns a raw 64-bit draw.
//
//go:norace
func (t *Tape) U64() uint64 {
	var v uint64
	if t.replay {
		if t.pos < len(t.in) {
			v = t.in[t.pos]
		}
		t.pos++
	} else {
		if t.Limit > 0 && len(t.Rec) >= t.Limit {
			v = 0
		} else {
			v = t.next()
		}
	}
	t.Rec = append(t.Rec, Draw{0, v})
	return v
}

// Pick returns an index chosen with the given integer weights. Index 0 is
// the "simplest" choice for shrinking.
//
//go:norace
func (t *Tape) Pick(weights ...int) int {
	total := 0
	for _, w := range weights {
		total += w
	}
	v := t.Choose(total)
	for i, w := range weights {
		if v < w {
			return i
		}
		v -= w
	}
	return len(weights) - 1
}

// Bytes fills a new slice of length n. Content class is drawn too: 0 = zeros
// (cheapest to shrink to), 1 = compressible pattern, 2 = random.
//
//go:norace
func (t *Tape) Bytes(n int) []byte {
	b := make([]byte, n)
	if n == 0 {
		return b
	}
	switch t.Choose(3) {
	case 0:
	case 1:
		s := byte(t.Choose(256))
		p := 1 + t.Choose(7)
		for i := range b {
			b[i] = s + byte(i%p)
		}
	default:
		// one draw seeds a private stream so big payloads cost one draw
		x := t.U64()
		for i := range b {
			x += 0x9E3779B97F4A7C15
			z := x
			z = (z ^ (z >> 30)) * 0xBF58476D1CE4E5B9
			z = (z ^ (z >> 27)) * 0x94D049BB133111EB
			b[i] = byte(z ^ (z >> 31))
		}
	}
	return b
}

// Values returns the recorded draw values (the replayable vector).
func (t *Tape) Values() []uint64 {
	out := make([]uint64, len(t.Rec))
	for i, d := range t.Rec {
		out[i] = d.Val
	}
	return out
}

// Draws is the number of decisions taken so far.
func (t *Tape) Draws() int { return len(t.Rec) }
