// Package gen holds workload generators shared by the property harnesses.
// Smaller draws mean simpler cases so that tape shrinking simplifies them.
package gen

import (
	"verifsim/tape"
)

// Threshold draws a compression threshold.
func Threshold(t *tape.Tape, allowHuge bool) int {
	switch t.Pick(3, 3, 2, 5, 2, 1, 2) {
	case 6:
		// mid-range thresholds (512..16384 +-2): payloads of several KiB that stay
		// uncompressed inside a compressed connection (C20-36)
		return 1<<uint(9+t.Choose(6)) - 2 + t.Choose(5)
	case 0:
		return -1
	case 1:
		return 0
	case 2:
		return 1
	case 3:
		return 2 + t.Choose(299)
	case 4:
		return 16384 - 2 + t.Choose(5)
	default:
		if allowHuge {
			return 1 << 21
		}
		return 256
	}
}

func varintLen(v int32) int {
	u := uint32(v)
	n := 1
	for u >= 0x80 {
		u >>= 7
		n++
	}
	return n
}

// PacketID draws a packet id over the full int32 range with boundary bias.
func PacketID(t *tape.Tape) int32 {
	switch t.Choose(16) {
	case 0:
		return 0
	case 1:
		return 1
	case 2:
		return 127
	case 3:
		return 128
	case 4:
		return 16383
	case 5:
		return 16384
	case 6:
		return 1<<21 - 1
	case 7:
		return 1 << 21
	case 8:
		return 1<<28 - 1
	case 9:
		return 1 << 28
	case 10:
		return 0x7fffffff
	case 11:
		return -1
	case 12:
		return -0x80000000
	case 13:
		return int32(t.Choose(0x80))
	default:
		return int32(uint32(t.U64()))
	}
}

// PayloadLen draws a payload length around the interesting boundaries for
// the given threshold and id. maxLen caps the result.
func PayloadLen(t *tape.Tape, threshold int, id int32, maxLen int) int {
	idLen := varintLen(id)
	n := 0
	switch t.Pick(2, 2, 5, 3, 5, 3, 1, 2, 1) {
	case 7:
		// id length and payload length together around the threshold
		// (data length = idLen + payload, the compress decision may use either)
		if threshold > 0 {
			n = threshold - idLen - 2 + t.Choose(5)
		} else {
			n = t.Choose(4)
		}
	case 8:
		// powers of two and their neighbours (buffer growth steps)
		n = 1<<uint(4+t.Choose(14)) - 2 + t.Choose(5)
	case 0:
		n = 0
	case 1:
		n = 1
	case 2:
		if threshold > 0 {
			n = threshold - 2 + t.Choose(5)
		} else {
			n = t.Choose(4)
		}
	case 3:
		// total-length VarInt boundaries
		b := []int{127, 128, 16383, 16384}[t.Choose(4)]
		extra := idLen
		if threshold >= 0 {
			extra++ // data-length byte of the uncompressed-in-compressed form
		}
		n = b - extra - 1 + t.Choose(3)
	case 4:
		n = t.Choose(300)
	case 5:
		n = t.Choose(6000)
	default:
		n = maxLen - t.Choose(3)
	}
	if n < 0 {
		n = 0
	}
	if n > maxLen {
		n = maxLen
	}
	return n
}

// Fill returns n bytes whose content identifies (tag, seq) so that foreign
// bytes are recognisable, mixed with tape-chosen compressibility.
func Fill(t *tape.Tape, n int, tag, seq int) []byte {
	b := t.Bytes(n)
	// stamp a recognisable header when there is room
	if n >= 4 {
		b[0], b[1], b[2], b[3] = byte(tag), byte(seq), byte(seq>>8), byte(tag^0x5a)
	}
	return b
}
