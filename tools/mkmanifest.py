#!/usr/bin/env python3
"""Regenerates /verif/MANIFEST.json from the table below and validates it."""
import json, subprocess, sys

NA = {
"C01":"NBT binary conformance is a pure function of the input document / Go value: no schedule, clock, fault or second party to simulate (its 'leaves following bytes unread' clause is observed incidentally by C09's residual-stream oracle).",
"C02":"NBT typed round-trip is a pure function of the value; the shared per-type cache it passes through is covered under C20.",
"C03":"Decoder totality over arbitrary byte strings is a for-all-inputs claim about a pure function (input fuzzing, not simulation); its truncation clause coincides with C09's EOF-at-every-offset fault and is exercised there.",
"C04":"SNBT <-> NBT conversion is a pure text/binary function with no schedule, time, I/O fault or concurrency.",
"C05":"VarInt/VarLong codecs are pure arithmetic over an enumerable input space; nothing for a scheduler or fault injector to decide.",
"C06":"Packet field codecs are pure functions plus the prior contents of one destination variable in a single thread; byte-count/residual-stream behaviour under fragmentation is observed by C09.",
"C08":"Hostile-input robustness: the adversary controls only the bytes and each decoder is a pure function of them; routing mutation fuzzing through a simulated socket would be input generation in simulator costume.",
"C11":"BitStorage is a single-threaded in-memory data structure without I/O, clock or concurrency.",
"C12":"PaletteContainer is a single-threaded in-memory data structure; its wire form is a pure function.",
"C13":"Chunk conversions are pure conversions between in-memory forms.",
"C17":"Text component codecs and renderers are pure functions.",
"C18":"Login crypto primitives are pure functions of their arguments.",
}

# id -> (category, technique, level text, level note, design ref)
CLAIMED = {}

def claim(id, cat, technique, text, note, ref):
    CLAIMED[id] = (cat, technique, text, note, ref)

PENDING = {}  # id -> reason while a claimed property's check is not built yet

exec(open("/verif/tools/claims.py").read())

checks = []
for id in sorted(CLAIMED):
    cat, technique, text, note, ref = CLAIMED[id]
    checks.append({
        "property_id": id,
        "quick_cmd": f"./check {id} --tier quick",
        "thorough_cmd": f"./check {id} --tier thorough",
        "evidence_file": f"/verif/evidence/{id}.json",
        "replay_cmd_template": "./check replay {path}",
        "engine": "simkit",
        "level_claimed": {"category": cat, "text": text, "design_ref": ref},
        "level_note": note,
        "technique": technique,
    })
na = [{"property_id": k, "reason": v} for k, v in sorted(NA.items())]
na += [{"property_id": k, "reason": v} for k, v in sorted(PENDING.items()) if k not in CLAIMED]
m = {
 "version": 1,
 "setup_cmd": "./setup.sh",
 "hooks": {
  "guard": "verif",
  "enable": "no hook is committed to /repo: seams are woven at check time from the working tree into a `go build -overlay -tags verif` (sync->simsync import swap, go statements->simrt.Go, yields around channel operations, statement-level preemption points, time.Now/net.Dial/net.DialTimeout/net.Dialer/net.Listen/rand.Int31 selector rewrites, conditionally overlay-added accessors for two unexported bot functions); see DESIGN.md 3.1, D.2, D.12 and weave/rules.json",
  "baseline_off_cmd": "cd /repo && go test -mod=mod -vet=off -count=1 -timeout 25m ./...",
  "source_commits": [],
  "add_only": True,
 },
 "engines": [{"name": "simkit", "path": "/verif/sim", "serves_properties": sorted(CLAIMED), "kind_free_text": "deterministic simulation with fault injection: seeded scheduler inside a testing/synctest bubble, simulator-owned sync/net/disk/clock, single choice tape with shrinking and replay files"}],
 "checks": checks,
 "not_applicable": na,
 "notes": "Deterministic simulation with fault injection; see DESIGN.md. Exit codes: 0 held, 1 violation (VIOLATION line with replay file), 2 infrastructure trouble. VERIF_SEED, VERIF_TIER, VERIF_BUDGET_S (thorough, seconds per worker) are honoured.",
}
json.dump(m, open("/verif/MANIFEST.json", "w"), indent=1)
r = subprocess.run(["python3-vt", "-c", "import json,jsonschema;jsonschema.validate(json.load(open('/verif/MANIFEST.json')), json.load(open('/root/.vp/MANIFEST.schema.json')));print('manifest ok')"])
sys.exit(r.returncode)
