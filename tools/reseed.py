#!/usr/bin/env python3
"""Regression over the stored seeded changes: apply each /verif/seeded/<name>/patch.diff to /repo, run the quick check of
its property (or of `detected_by`), revert. Prints one line per change and a summary; exit 1 if any is missed."""
import glob, json, os, subprocess, sys, time

os.environ["VERIF_EVIDENCE_DIR"] = "/tmp/verif-evidence-scratch"  # runs on modified trees must not rewrite /verif/evidence

def sh(cmd, cwd=None):
    p = subprocess.run(cmd, shell=True, cwd=cwd, stdout=subprocess.PIPE, stderr=subprocess.STDOUT, text=True, errors="replace")
    return p.returncode, p.stdout

rc, o = sh("git status --porcelain", cwd="/repo")
if o.strip():
    print("refusing: /repo dirty"); sys.exit(2)
only = set(sys.argv[1:])
missed = []
for d in sorted(glob.glob("/verif/seeded/*/")):
    name = os.path.basename(d.rstrip("/"))
    if only and name not in only:
        continue
    meta = json.load(open(d + "meta.json"))
    if meta.get("obsolete_since"):
        print(f"{name}: skipped (no longer a violation since {meta['obsolete_since'][:60]}...)")
        continue
    prop = meta.get("detected_by", meta["property"])
    try:
        rc, o = sh(f"git apply {d}patch.diff", cwd="/repo")
        if rc != 0:
            # written against an earlier commit of /repo (before a later `fix:`): merge
            sh("git reset -q --hard HEAD", cwd="/repo")
            rc, o = sh(f"git apply --3way {d}patch.diff", cwd="/repo")
        if rc != 0:
            print(f"{name}: patch does not apply: {o[:200]}"); missed.append(name); continue
        t0 = time.time()
        rc, o = sh(f"./check {prop} --tier quick", cwd="/verif")
        v = [l for l in o.splitlines() if l.startswith("violation:")]
        print(f"{name}: check {prop} exit {rc} in {time.time()-t0:.0f}s {v[:1]}")
        if rc != 1:
            missed.append(name)
    finally:
        sh("git reset -q --hard HEAD && git clean -fdq", cwd="/repo")
        sh("rm -f /verif/replays/*.json")
print("missed:", missed)
sys.exit(1 if missed else 0)
