#!/usr/bin/env python3
"""Run the checks against a behaviour-preserving refactoring written by a sub-agent (false-alarm test).
usage: tools/benign.py PROP N [NAME] ; inputs in /tmp/wt/PROP.out/refactorN.diff, whyN.md; worktree /tmp/wt/PROP"""
import json, os, shutil, subprocess, sys, time

os.environ["VERIF_EVIDENCE_DIR"] = "/tmp/verif-evidence-scratch"  # runs on modified trees must not rewrite /verif/evidence
ENV = dict(os.environ, GOFLAGS="-mod=mod", GOPROXY="off", GOSUMDB="off")
def sh(cmd, cwd=None, env=ENV):
    p = subprocess.run(cmd, shell=True, cwd=cwd, env=env, stdout=subprocess.PIPE, stderr=subprocess.STDOUT, text=True, errors="replace")
    return p.returncode, p.stdout
prop, n = sys.argv[1], sys.argv[2]
name = sys.argv[3] if len(sys.argv) > 3 else f"{prop}-r{n}"
wt, out = f"/tmp/wt/{prop}", f"/tmp/wt/{prop}.out"
diff = f"{out}/refactor{n}.diff"
sh("git checkout -- . && git clean -fdq", cwd=wt)
rc, o = sh(f"git apply {diff}", cwd=wt)
if rc != 0:
    print("diff does not apply", o); sys.exit(2)
rc, o = sh("go build ./... && go test -vet=off -count=1 ./... 2>&1 | tail -30", cwd=wt)
suite_ok = rc == 0 and "FAIL" not in o
sh("git checkout -- . && git clean -fdq", cwd=wt)
meta = {"property": prop, "name": name, "suite_passes_with_it": suite_ok, "checks": {}}
print(f"{name}: suite_ok={suite_ok}")
if not suite_ok:
    print(o[-1500:]); sys.exit(1)
rc, o = sh("git status --porcelain", cwd="/repo")
if o.strip():
    print("refusing: /repo dirty"); sys.exit(2)
alarm = False
try:
    rc, o = sh(f"git apply {diff}", cwd="/repo")
    if rc != 0:
        print("does not apply to /repo", o); sys.exit(2)
    for tier, budget in (("quick", None), ("thorough", "60")):
        env = dict(os.environ)
        if budget:
            env["VERIF_BUDGET_S"] = budget
        t0 = time.time()
        rc, o = sh(f"./check {prop} --tier {tier}", cwd="/verif", env=env)
        v = [l for l in o.splitlines() if l.startswith(("violation:", "INFRASTRUCTURE"))]
        meta["checks"][tier] = {"exit": rc, "wall_s": round(time.time() - t0, 1), "report": v[:2]}
        print(f"  check {prop} --tier {tier}: exit {rc} in {time.time()-t0:.0f}s {v[:1]}")
        if rc != 0:
            alarm = True
            print("\n".join(o.splitlines()[-12:])[:3000])
            break
finally:
    sh("git checkout -- . && git clean -fdq", cwd="/repo")
meta["alarm"] = alarm
d = f"/verif/benign/{name}"
os.makedirs(d, exist_ok=True)
shutil.copy(diff, f"{d}/refactor.diff")
if os.path.exists(f"{out}/why{n}.md"):
    shutil.copy(f"{out}/why{n}.md", f"{d}/why.md")
if alarm:
    os.makedirs(f"{d}/replay", exist_ok=True)
    for f in os.listdir("/verif/replays"):
        shutil.copy(f"/verif/replays/{f}", f"{d}/replay/{f}")
sh("rm -f /verif/replays/*.json")
json.dump(meta, open(f"{d}/meta.json", "w"), indent=1)
print(f"  stored {d} alarm={alarm}")
