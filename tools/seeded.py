#!/usr/bin/env python3
"""Confirm an independently written breaking change and run the checks against it.

usage: tools/seeded.py PROP N DEMO_DIR [NAME]
  /tmp/wt/PROP      scratch worktree of /repo (clean)
  /tmp/wt/PROP.out  changeN.diff, demoN_test.go (or demoN/main.go), notesN.md
  DEMO_DIR          package directory (relative to the repo root) the demo test must be copied into

Steps: (1) in the scratch worktree: apply the diff, go build + full baseline suite (must pass), run the demo (must
fail); revert, run the demo (must pass). (2) apply the diff to /repo, run `./check PROP` (quick; thorough if quick
misses), always revert. (3) store /verif/seeded/<name>/{patch.diff, demo, notes.md, meta.json}.
"""
import json, os, shutil, subprocess, sys, time

os.environ["VERIF_EVIDENCE_DIR"] = "/tmp/verif-evidence-scratch"  # runs on modified trees must not rewrite /verif/evidence

ENV = dict(os.environ, GOFLAGS="-mod=mod", GOPROXY="off", GOSUMDB="off")


def sh(cmd, cwd=None, env=ENV, timeout=3600):
    p = subprocess.run(cmd, shell=True, cwd=cwd, env=env, stdout=subprocess.PIPE, stderr=subprocess.STDOUT, text=True, errors="replace", timeout=timeout)
    return p.returncode, p.stdout


def main():
    prop, n, demo_dir = sys.argv[1], sys.argv[2], sys.argv[3]
    name = sys.argv[4] if len(sys.argv) > 4 else f"{prop}-{n}"
    wt, out = f"/tmp/wt/{prop}", f"/tmp/wt/{prop}.out"
    diff = f"{out}/change{n}.diff"
    demo_src = f"{out}/demo{n}_test.go"
    is_prog = not os.path.exists(demo_src)
    if is_prog:
        demo_src = f"{out}/demo{n}"
    meta = {"property": prop, "name": name, "source": "independent sub-agent given only the property record and a scratch worktree", "ran": []}
    rc, o = sh("git status --porcelain", cwd=wt)
    if o.strip():
        sh("git checkout -- . && git clean -fdq", cwd=wt)

    def demo(label):
        if is_prog:
            dst = f"{wt}/{demo_dir}/zz_demo"
            shutil.copytree(demo_src, dst, dirs_exist_ok=True)
            rc, o = sh(f"go run ./{demo_dir}/zz_demo", cwd=wt, timeout=1200)
            shutil.rmtree(dst)
        else:
            os.makedirs(f"{wt}/{demo_dir}", exist_ok=True)
            dst = f"{wt}/{demo_dir}/zz_demo{n}_test.go"
            shutil.copy(demo_src, dst)
            rc, o = sh(f"go test -vet=off -count=1 -run . ./{demo_dir}/ 2>&1 | tail -30", cwd=wt, timeout=1200)
            rc = 1 if ("FAIL" in o or "panic:" in o) else 0
            os.remove(dst)
            if not os.listdir(f"{wt}/{demo_dir}"):
                os.rmdir(f"{wt}/{demo_dir}")
        meta["ran"].append({"what": f"demonstration {label}", "exit": rc, "tail": o[-600:]})
        return rc

    # without the change: must pass
    rc_without = demo("without the change")
    rc, o = sh(f"git apply {diff}", cwd=wt)
    if rc != 0:
        print("diff does not apply:", o); sys.exit(2)
    rc, o = sh("go build ./... && go test -vet=off -count=1 ./... 2>&1 | tail -40", cwd=wt)
    suite_ok = rc == 0 and "FAIL" not in o
    meta["ran"].append({"what": "go build ./... && go test -vet=off -count=1 ./... with the change", "ok": suite_ok})
    rc_with = demo("with the change")
    sh("git checkout -- . && git clean -fdq", cwd=wt)
    confirmed = suite_ok and rc_with != 0 and rc_without == 0
    meta["confirmed"] = confirmed
    print(f"{name}: suite_ok={suite_ok} demo_with_change_fails={rc_with != 0} demo_without_passes={rc_without == 0}")
    if not confirmed:
        print(json.dumps(meta, indent=1)[-3000:])
        sys.exit(1)

    # run the checks against it on /repo itself
    rc, o = sh("git status --porcelain", cwd="/repo")
    if o.strip():
        print("refusing: /repo dirty"); sys.exit(2)
    results = {}
    try:
        rc, o = sh(f"git apply {diff}", cwd="/repo")
        if rc != 0:
            print("diff does not apply to /repo:", o); sys.exit(2)
        for tier in ("quick", "thorough"):
            t0 = time.time()
            env = dict(os.environ)
            if tier == "thorough":
                env["VERIF_BUDGET_S"] = "120"
            rc, o = sh(f"./check {prop} --tier {tier}", cwd="/verif", env=env)
            viol = [l for l in o.splitlines() if l.startswith("violation:")]
            results[tier] = {"exit": rc, "wall_s": round(time.time() - t0, 1), "violation": viol[:1],
                             "message": [l for l in o.splitlines() if not l.startswith(("violation:", "VIOLATION", prop + " "))][:3]}
            print(f"  check {prop} --tier {tier}: exit {rc} in {results[tier]['wall_s']}s {viol[:1]}")
            if rc == 2:
                print(o[-2000:])
            if rc == 1:
                break
    finally:
        sh("git checkout -- . && git clean -fdq", cwd="/repo")
        sh("rm -f /verif/replays/*.json")
    meta["checks"] = results
    meta["detected"] = any(r["exit"] == 1 for r in results.values())
    d = f"/verif/seeded/{name}"
    os.makedirs(d, exist_ok=True)
    shutil.copy(diff, f"{d}/patch.diff")
    if is_prog:
        shutil.copytree(demo_src, f"{d}/demo", dirs_exist_ok=True)
    else:
        shutil.copy(demo_src, f"{d}/demo_test.go")
    meta["demo_dir"] = demo_dir
    notes = f"{out}/notes{n}.md"
    if os.path.exists(notes):
        shutil.copy(notes, f"{d}/notes.md")
        meta["needs_to_manifest"] = "see notes.md"
    json.dump(meta, open(f"{d}/meta.json", "w"), indent=1)
    print(f"  stored {d} detected={meta['detected']}")


if __name__ == "__main__":
    main()
