#!/usr/bin/env python3
"""Sensitivity waves: apply hand-written mutants of go-mc one at a time to /repo,
confirm that the tree still builds and the baseline suite passes, run the
property's check, record whether it was detected, and always restore /repo.

usage: tools/mutants.py [--tier quick|thorough] [--only NAME[,NAME]] [PROP ...]
"""
import json, os, subprocess, sys, time

os.environ["VERIF_EVIDENCE_DIR"] = "/tmp/verif-evidence-scratch"  # runs on modified trees must not rewrite /verif/evidence

REPO = "/repo"
ENV = dict(os.environ, GOFLAGS="-mod=mod", GOPROXY="off", GOSUMDB="off")

# (name, property, file, old, new)
M = []

def m(name, prop, file, old, new):
    M.append((name, prop, file, old, new))

# ---------------------------------------------------------------- C07
m("c07-pack-threshold-le", "C07", "net/packet/packet.go",
  "if len(p.Data) < threshold {", "if len(p.Data) <= threshold {")
m("c07-unpack-threshold-le", "C07", "net/packet/packet.go",
  "if int(DataLength) < threshold {", "if int(DataLength) <= threshold {")
m("c07-no-buffer-reset-plain", "C07", "net/packet/packet.go",
  "\tdefer bufPool.Put(buffer)\n\tbuffer.Reset()\n", "\tdefer bufPool.Put(buffer)\n")
m("c07-no-buffer-reset-unpack", "C07", "net/packet/packet.go",
  "\tdefer bufPool.Put(buff)\n\tbuff.Reset()\n\n\t_, err = io.CopyN", "\tdefer bufPool.Put(buff)\n\n\t_, err = io.CopyN")
m("c07-no-zw-reset", "C07", "net/packet/packet.go",
  "\tzw.Reset(w)\n", "\tif zw == nil {\n\t\tzw.Reset(w)\n\t}\n")
m("c07-length-patch-offset", "C07", "net/packet/packet.go",
  "buff.Next(MaxVarIntLen - packetLengthLen)", "buff.Next(MaxVarIntLen - packetLengthLen + (packetLengthLen / 3))")
m("c07-readfull-to-read", "C07", "net/packet/packet.go",
  "\t_, err = io.ReadFull(r, p.Data)\n\tif err != nil {\n\t\treturn err\n\t}\n\treturn nil\n}\n\nfunc (p *Packet) unpackWithCompression",
  "\t_, err = r.Read(p.Data)\n\tif err != nil && len(p.Data) > 0 {\n\t\treturn err\n\t}\n\treturn nil\n}\n\nfunc (p *Packet) unpackWithCompression")
m("c07-drop-negative-check", "C07", "net/packet/packet.go",
  "if lengthOfData < 0 || lengthOfData > MaxDataLength {", "if lengthOfData > MaxDataLength {")
m("c07-drop-max-check-compressed", "C07", "net/packet/packet.go",
  "\t\tif DataLength > MaxDataLength {", "\t\tif DataLength > MaxDataLength*4 {")
m("c07-drop-max-check-plain", "C07", "net/packet/packet.go",
  "if lengthOfData < 0 || lengthOfData > MaxDataLength {", "if lengthOfData < 0 {")
m("c07-drop-below-threshold-check", "C07", "net/packet/packet.go",
  "\t\tif int(DataLength) < threshold {", "\t\tif int(DataLength) < 0 {")
m("c07-datalength-miscount", "C07", "net/packet/packet.go",
  "DataLength := VarInt(PacketID.Len() + len(p.Data))", "DataLength := VarInt(1 + len(p.Data))")
m("c07-bufio-overread", "C07", "net/packet/packet.go",
  "func (p *Packet) unpackWithoutCompression(r io.Reader) error {\n",
  "func (p *Packet) unpackWithoutCompression(r io.Reader) error {\n\tif _, ok := r.(io.ByteReader); !ok {\n\t\tr = bufio.NewReaderSize(r, 16)\n\t}\n")
m("c07-alias-pooled-buffer", "C07", "net/packet/packet.go",
  "\t\tDataLength = VarInt(int64(PacketLength) - n2 - n3)\n\t}\n",
  "\t\tDataLength = VarInt(int64(PacketLength) - n2 - n3)\n\t\tif cap(p.Data) < int(DataLength) {\n\t\t\tp.ID = int32(PacketID)\n\t\t\tp.Data = buff.Bytes()[int(n2+n3):]\n\t\t\treturn nil\n\t\t}\n\t}\n")
m("c07-conn-threshold-read-only", "C07", "net/conn.go",
  "\treturn p.Pack(c.Writer, c.threshold)", "\tif c.threshold > 1000 {\n\t\treturn p.Pack(c.Writer, 1000)\n\t}\n\treturn p.Pack(c.Writer, c.threshold)")

# ---------------------------------------------------------------- C20
m("c20-close-signal", "C20", "net/queue/queue.go", "p.cond.Broadcast()", "p.cond.Signal()")
m("c20-push-nolock", "C20", "net/queue/queue.go",
  "func (p *LinkedListQueue[T]) Push(v T) bool {\n\tp.cond.L.Lock()\n\tif p.closed {\n\t\tpanic(\"push on closed queue\")\n\t}\n\tp.queue.PushBack(v)\n\tp.cond.Signal()\n\tp.cond.L.Unlock()\n",
  "func (p *LinkedListQueue[T]) Push(v T) bool {\n\tif p.closed {\n\t\tpanic(\"push on closed queue\")\n\t}\n\tp.queue.PushBack(v)\n\tp.cond.Signal()\n")
m("c20-signal-only-when-empty", "C20", "net/queue/queue.go",
  "\tp.queue.PushBack(v)\n\tp.cond.Signal()\n", "\tif p.queue.Len() == 0 {\n\t\tp.cond.Signal()\n\t}\n\tp.queue.PushBack(v)\n")
m("c20-if-instead-of-for", "C20", "net/queue/queue.go",
  "\t\t} else if p.closed {\n\t\t\tbreak\n\t\t}\n\t\tp.cond.Wait()\n\t}",
  "\t\t} else if p.closed {\n\t\t\tbreak\n\t\t}\n\t\tp.cond.Wait()\n\t\tif elem := p.queue.Front(); elem != nil {\n\t\t\tv = p.queue.Remove(elem).(T)\n\t\t\tok = true\n\t\t}\n\t\tbreak\n\t}")
m("c20-closed-before-list", "C20", "net/queue/queue.go",
  "\t\tif elem := p.queue.Front(); elem != nil {\n\t\t\tv = p.queue.Remove(elem).(T)\n\t\t\tok = true\n\t\t\tbreak\n\t\t} else if p.closed {\n\t\t\tbreak\n\t\t}",
  "\t\tif p.closed {\n\t\t\tbreak\n\t\t} else if elem := p.queue.Front(); elem != nil {\n\t\t\tv = p.queue.Remove(elem).(T)\n\t\t\tok = true\n\t\t\tbreak\n\t\t}")
m("c20-channel-push-blocks", "C20", "net/queue/queue.go",
  "\tselect {\n\tcase c <- v:\n\t\treturn true\n\tdefault:\n\t\treturn false\n\t}", "\tc <- v\n\treturn true")
m("c20-pull-lifo", "C20", "net/queue/queue.go",
  "if elem := p.queue.Front(); elem != nil {", "if elem := p.queue.Back(); elem != nil {")

# ---------------------------------------------------------------- C09
m("c09-nbt-readstring-read", "C09", "nbt/decode.go",
  "\t\tbuf := make([]byte, length)\n\t\t_, err = io.ReadFull(d.r, buf)", "\t\tbuf := make([]byte, length)\n\t\t_, err = d.r.Read(buf)")
m("c09-nbt-readint32-read", "C09", "nbt/decode.go",
  "func (d *Decoder) readInt32() (int32, error) {\n\tvar data [4]byte\n\t_, err := io.ReadFull(d.r, data[:])", "func (d *Decoder) readInt32() (int32, error) {\n\tvar data [4]byte\n\t_, err := d.r.Read(data[:])")
m("c09-nbt-rawread-copyn-ignored", "C09", "nbt/decode.go",
  "\t\tif _, err = io.CopyN(io.Discard, d.r, int64(aryLen)); err != nil {\n\t\t\treturn err\n\t\t}", "\t\t_, _ = io.CopyN(io.Discard, d.r, int64(aryLen))")
m("c09-nbt-rawread-short-read", "C09", "nbt/decode.go",
  "\tcase TagShort:\n\t\t_, err := io.ReadFull(d.r, buf[:2])\n\t\treturn err", "\tcase TagShort:\n\t\t_, err := d.r.Read(buf[:2])\n\t\treturn err")
m("c09-nbt-readbyte-swallow", "C09", "nbt/nbt.go",
  "\tif n == 1 {\n\t\treturn b[0], nil\n\t}\n\treturn 0, err", "\tif n == 1 {\n\t\treturn b[0], nil\n\t}\n\tif err == io.EOF {\n\t\treturn 0, nil\n\t}\n\treturn 0, err")
m("c09-nbt-bytearray-read", "C09", "nbt/decode.go",
  "\t\tif _, err = io.ReadFull(d.r, ba); err != nil {", "\t\tif _, err = d.r.Read(ba); err != nil && len(ba) > 0 {")
m("c09-enc-writeint32-drop", "C09", "nbt/encode.go",
  "\t\tif err := writeInt32(e.w, int32(n)); err != nil {\n\t\t\treturn err\n\t\t}\n\n\t\tif tagType == TagByteArray {", "\t\t_ = writeInt32(e.w, int32(n))\n\n\t\tif tagType == TagByteArray {")
m("c09-enc-writetag-name-drop", "C09", "nbt/encode.go",
  "\t_, err := w.Write(bName)\n\treturn err", "\t_, _ = w.Write(bName)\n\treturn nil")
m("c09-enc-short-drop", "C09", "nbt/encode.go",
  "\tcase TagShort:\n\t\treturn writeInt16(e.w, int16(val.Int()))", "\tcase TagShort:\n\t\t_ = writeInt16(e.w, int16(val.Int()))\n\t\treturn nil")
m("c09-pack-plain-drop", "C09", "net/packet/packet.go",
  "\t_, err := w.Write(buffer.Bytes())\n\treturn err", "\t_, _ = w.Write(buffer.Bytes())\n\treturn nil")
m("c09-pack-zlib-short-write", "C09", "net/packet/packet.go",
  "\t_, err := w.Write(buff.Bytes())\n\treturn err", "\tn, err := w.Write(buff.Bytes())\n\tif n > 0 {\n\t\treturn nil\n\t}\n\treturn err")
m("c09-unpack-copyn-ignored", "C09", "net/packet/packet.go",
  "\t_, err = io.CopyN(buff, r, int64(PacketLength))\n\tif err != nil {\n\t\treturn err\n\t}", "\t_, err = io.CopyN(buff, r, int64(PacketLength))\n\tif err != nil && err != io.EOF {\n\t\treturn err\n\t}")
m("c09-rcon-write-drop", "C09", "net/rcon.go",
  "\t_, err := r.Write(buf.Bytes())\n\treturn err", "\t_, _ = r.Write(buf.Bytes())\n\treturn nil")
m("c09-rcon-read-body-read", "C09", "net/rcon.go",
  "\terr = binary.Read(r, binary.LittleEndian, &buf)\n", "\t_, err = r.Read(buf)\n")
m("c09-string-read", "C09", "net/packet/types.go",
  "\tbs := make([]byte, l)\n\tif _, err := io.ReadFull(r, bs); err != nil {", "\tbs := make([]byte, l)\n\tif _, err := r.Read(bs); err != nil && l > 0 {")
m("c09-long-read", "C09", "net/packet/types.go",
  "\tvar bs [8]byte\n\tif nn, err := io.ReadFull(r, bs[:]); err != nil {", "\tvar bs [8]byte\n\tif nn, err := r.Read(bs[:]); err != nil {")
m("c09-uuid-read", "C09", "net/packet/types.go",
  "\tnn, err := io.ReadFull(r, (*u)[:])", "\tnn, err := r.Read((*u)[:])")
m("c09-bytearray-eof-ok", "C09", "net/packet/types.go",
  "\tn2, err := io.ReadFull(r, *b)\n\treturn n1 + int64(n2), err", "\tn2, err := io.ReadFull(r, *b)\n\tif err == io.ErrUnexpectedEOF {\n\t\terr = nil\n\t}\n\treturn n1 + int64(n2), err")
m("c09-countingreader-miscount", "C09", "net/packet/types.go",
  "\tn, err = c.r.Read(p)\n\tc.n += int64(n)", "\tn, err = c.r.Read(p)\n\tc.n += int64(len(p))")
m("c09-bytereaderwrapper-read", "C09", "net/packet/util.go",
  "\t_, err := io.ReadFull(r.Reader, buf[:])\n\treturn buf[0], err", "\tn, err := r.Reader.Read(buf[:])\n\tif n == 1 {\n\t\terr = nil\n\t}\n\treturn buf[0], err")
m("c09-dynbt-string-read", "C09", "nbt/dynbt/decode.go",
  "\t\t_, err = io.ReadFull(r, v.data[2:])", "\t\t_, err = r.Read(v.data[2:])\n\t\tif n == 0 {\n\t\t\terr = nil\n\t\t}")
m("c09-tuple-drop-err", "C09", "net/packet/util.go",
  "\t\tnn, err := v.(FieldEncoder).WriteTo(w)\n\t\tif err != nil {\n\t\t\treturn n, err\n\t\t}", "\t\tnn, err := v.(FieldEncoder).WriteTo(w)\n\t\tif err != nil && nn == 0 {\n\t\t\treturn n, err\n\t\t}")
m("c09-dynbt-marshal-drop", "C09", "nbt/dynbt/encode.go",
  "func writeInt32(w io.Writer, n int32) error {\n\t_, err := w.Write(", "func writeInt32(w io.Writer, n int32) error {\n\tvar err error\n\t_, _ = w.Write(")

# ---------------------------------------------------------------- C10
m("c10-fastpath-ge", "C10", "net/CFB8/cfb8.go", "if len(src) > cf.blockSize<<1 &&", "if len(src) >= cf.blockSize<<1 &&")
m("c10-fastpath-iv-copy-off", "C10", "net/CFB8/cfb8.go", "copy(iv, ciphertext[i:i+cf.blockSize])", "copy(iv, ciphertext[i+1:i+1+cf.blockSize-1])")
m("c10-fastpath-no-ivpos-reset", "C10", "net/CFB8/cfb8.go", "\t\tcopy(iv, ciphertext[i:i+cf.blockSize])\n\t\tcf.ivPos = 0\n", "\t\tcopy(iv, ciphertext[i:i+cf.blockSize])\n")
m("c10-ring-wrap-early", "C10", "net/CFB8/cfb8.go", "if cf.ivPos == cf.blockSize<<1 {", "if cf.ivPos == cf.blockSize<<1-1 {")
m("c10-ring-wrap-de-swapped", "C10", "net/CFB8/cfb8.go",
  "\t\t\tif cf.de {\n\t\t\t\tcf.iv[cf.blockSize-1] = src[i]\n\t\t\t} else {\n\t\t\t\tcf.iv[cf.blockSize-1] = val\n\t\t\t}",
  "\t\t\tif !cf.de {\n\t\t\t\tcf.iv[cf.blockSize-1] = src[i]\n\t\t\t} else {\n\t\t\t\tcf.iv[cf.blockSize-1] = val\n\t\t\t}")
m("c10-fastpath-alias-check-dropped", "C10", "net/CFB8/cfb8.go",
  "uintptr(unsafe.Pointer(&src[0]))+uintptr(len(src)) <= uintptr(unsafe.Pointer(&dst[0]))) {", "uintptr(unsafe.Pointer(&src[0]))+uintptr(len(src)) <= uintptr(unsafe.Pointer(&dst[0])) || cf.de) {")
m("c10-fastpath-decrypt-tail", "C10", "net/CFB8/cfb8.go",
  "\t\t\tfor i = 0; i < len(src)-cf.blockSize; i += 1 {", "\t\t\tfor i = 0; i < len(src)-cf.blockSize+1; i += 1 {")
m("c10-setcipher-swapped", "C10", "net/conn.go",
  "\t\tS: decoStream,\n\t\tR: c.Socket,", "\t\tS: ecoStream,\n\t\tR: c.Socket,")
m("c10-slow-path-dst-short", "C10", "net/CFB8/cfb8.go",
  "\tcf.xorKeyStream(dst, src)\n}", "\tif len(src) == cf.blockSize+1 {\n\t\tcf.xorKeyStream(dst, src[:cf.blockSize])\n\t\tcf.xorKeyStream(dst[cf.blockSize-1:], src[cf.blockSize:])\n\t\treturn\n\t}\n\tcf.xorKeyStream(dst, src)\n}")

m("c10-fastpath-assumes-fresh-state", "C10", "net/CFB8/cfb8.go",
  "\t\tcf.xorKeyStream(dst, src[:cf.blockSize])\n\t\tvar ciphertext []byte", "\t\tcf.ivPos = 0\n\t\tcf.xorKeyStream(dst, src[:cf.blockSize])\n\t\tvar ciphertext []byte")
m("c10-second-ring-wrap-broken", "C10", "net/CFB8/cfb8.go",
  "\t\t\tcopy(cf.iv, cf.iv[cf.ivPos+1:])\n", "\t\t\tif cf.iv[len(cf.iv)-1] != 0xA5 {\n\t\t\t\tcopy(cf.iv, cf.iv[cf.ivPos+1:])\n\t\t\t\tcf.iv[len(cf.iv)-1] = 0xA5\n\t\t\t}\n")

# ---------------------------------------------------------------- C16
m("c16-length-arith", "C16", "net/rcon.go", "int32(4 + 4 + len(Payload) + 2), // Length", "int32(4 + 4 + len(Payload) + 1), // Length")
m("c16-payload-slice", "C16", "net/rcon.go", "Payload = string(buf[8 : Length-2])", "Payload = string(buf[8 : Length-1])")
m("c16-min-bound", "C16", "net/rcon.go", "if Length < 4+4+0+2 {", "if Length < 4+4+0+1 {")
m("c16-max-bound", "C16", "net/rcon.go", "if Length > MaxRCONPackageSize {", "if Length >= MaxRCONPackageSize {")
m("c16-max-bound-loose", "C16", "net/rcon.go", "if Length > MaxRCONPackageSize {", "if Length > MaxRCONPackageSize+1 {")
m("c16-big-endian-type", "C16", "net/rcon.go", "Type = int32(binary.LittleEndian.Uint32(buf[4:8]))", "Type = int32(binary.BigEndian.Uint32(buf[4:8]))")
m("c16-login-id-inverted", "C16", "net/rcon.go", "\tif r == c.ReqID {\n\t\terr = nil\n\t} else if r == -1 {", "\tif r != -1 {\n\t\terr = nil\n\t} else if r == -1 {")
m("c16-acceptlogin-echo-on-wrong", "C16", "net/rcon.go", "\t\terr = r.WritePacket(-1, 2, \"\")", "\t\terr = r.WritePacket(R, 2, \"\")")
m("c16-acceptlogin-prefix", "C16", "net/rcon.go", "\tif P != password {", "\tif !strings.HasPrefix(password, P) {")
m("c16-acceptlogin-casefold", "C16", "net/rcon.go", "\tif P != password {", "\tif !strings.EqualFold(P, password) {")
m("c16-resp-no-id-check", "C16", "net/rcon.go", "\tif ReqID != r.ReqID {", "\tif ReqID != r.ReqID && ReqID == -1 {")
m("c16-resp-no-type-check", "C16", "net/rcon.go", "\t} else if Type != 0 {", "\t} else if Type != 0 && Type != 2 {")
m("c16-acceptcmd-trims", "C16", "net/rcon.go", "\treturn P, nil\n}\n\nfunc (r *RCONConn) RespCmd", "\treturn strings.TrimRight(P, \"\\x00\"), nil\n}\n\nfunc (r *RCONConn) RespCmd")
m("c16-acceptlogin-silent-reject", "C16", "net/rcon.go", "\t\treturn errors.New(\"password wrong\")", "\t\treturn nil")
m("c16-respcmd-stale-id", "C16", "net/rcon.go", "\tr.ReqID = R\n\n\t// Check packet type\n\tif T != 2 {", "\tif r.ReqID == 0 {\n\t\tr.ReqID = R\n\t}\n\n\t// Check packet type\n\tif T != 2 {")

# ---------------------------------------------------------------- C14 / C15
for prop_ in ("C14", "C15"):
    m("r-findspace-off-by-one-%s" % prop_, prop_, "save/region/mca.go", "\tfor i := int32(0); i < need; i++ {\n\t\tif r.sectors[n+i] {", "\tfor i := int32(0); i < need-1 || i < 1; i++ {\n\t\tif r.sectors[n+i] {")
    m("r-not-marking-used-%s" % prop_, prop_, "save/region/mca.go", "\t\tfor i := int32(0); i < need; i++ {\n\t\t\tr.sectors[n+i] = true\n\t\t}", "\t\tfor i := int32(0); i < need-1; i++ {\n\t\t\tr.sectors[n+i] = true\n\t\t}")
    m("r-sethead-slot-transposed-%s" % prop_, prop_, "save/region/mca.go", "\t_, err = r.writeAt(buf[:], 4*(int64(z)*32+int64(x)))", "\t_, err = r.writeAt(buf[:], 4*(int64(x)*32+int64(z)))")
    m("r-need-rounding-%s" % prop_, prop_, "save/region/mca.go", "need := int32((len(data) + 4 + 4096 - 1) / 4096)", "need := int32((len(data) + 4096 - 1) / 4096)")
    m("r-limit-off-by-one-%s" % prop_, prop_, "save/region/mca.go", "\tif need >= 256 {", "\tif need > 256 {")
    m("r-inplace-when-smaller-%s" % prop_, prop_, "save/region/mca.go", "\tif n != 0 && now == need {", "\tif n != 0 && now >= need {")
    m("r-inplace-when-larger-%s" % prop_, prop_, "save/region/mca.go", "\tif n != 0 && now == need {", "\tif n != 0 && now+1 >= need && now <= need {")
    m("r-load-skips-freelist-%s" % prop_, prop_, "save/region/mca.go", "\t\t\tif o, s := sectorLoc(v); o != 0 {\n\t\t\t\tfor i := int32(0); i < s; i++ {", "\t\t\tif o, s := sectorLoc(v); o != 0 {\n\t\t\t\tfor i := int32(0); i < s-1; i++ {")
    m("r-free-old-after-alloc-%s" % prop_, prop_, "save/region/mca.go", "\t\tfor i := int32(0); i < now; i++ {\n\t\t\tr.sectors[n+i] = false\n\t\t}", "\t\tfor i := int32(0); i <= now; i++ {\n\t\t\tr.sectors[n+i] = false\n\t\t}")
    m("r-timestamp-slot-wrong-%s" % prop_, prop_, "save/region/mca.go", "\t_, err = r.writeAt(buf[:], 4096+4*(int64(z)*32+int64(x)))", "\t_, err = r.writeAt(buf[:], 4096+4*(int64(z)*32+int64(x)+1))")
m("c14-limitreader-bound", "C14", "save/region/mca.go", "reader := io.LimitReader(r.f, 4096*int64(num))", "reader := io.LimitReader(r.f, 4096*int64(num)-4)")
m("c14-exist-uses-timestamp", "C14", "save/region/mca.go", "\treturn r.offsets[z][x] != 0", "\treturn r.Timestamps[z][x] != 0")
m("c14-pad-off", "C14", "save/region/mca.go", "\t\t_, err = r.f.Write(make([]byte, 4096-size%4096))", "\t\t_, err = r.f.Write(make([]byte, 4095-size%4096))")
m("c14-toolarge-check-after-free", "C14", "save/region/mca.go",
  "\t// maximum chunk size is 1MB\n\tif need >= 256 {\n\t\treturn ErrTooLarge\n\t}\n\n\tif n != 0 && now == need {",
  "\tif need >= 256 {\n\t\tfor i := int32(0); i < now; i++ {\n\t\t\tr.sectors[n+i] = false\n\t\t}\n\t\treturn ErrTooLarge\n\t}\n\n\tif n != 0 && now == need {")
m("c14-timestamp-inmem-only-on-new", "C14", "save/region/mca.go", "\t\tr.Timestamps[z][x] = int32(timestamp)", "\t\tif now == 0 {\n\t\t\tr.Timestamps[z][x] = int32(timestamp)\n\t\t}")
m("c15-data-before-header", "C15", "save/region/mca.go",
  "\t\t// update file head\n\t\ttimestamp := time.Now().Unix()\n\t\terr := r.setHead(x, z, uint32(r.offsets[z][x]), uint32(timestamp))\n\t\tif err != nil {\n\t\t\treturn err\n\t\t}",
  "\t\t// update file head\n\t\ttimestamp := time.Now().Unix()\n\t\tif _, err := r.f.Seek(4096*int64(n), 0); err != nil {\n\t\t\treturn err\n\t\t}\n\t\tif err := binary.Write(r.f, binary.BigEndian, int32(len(data))); err != nil {\n\t\t\treturn err\n\t\t}\n\t\terr := r.setHead(x, z, uint32(r.offsets[z][x]), uint32(timestamp))\n\t\tif err != nil {\n\t\t\treturn err\n\t\t}")
m("c15-scrub-freed-sectors", "C15", "save/region/mca.go",
  "\t\t// scan for a free space large enough to store this chunk\n",
  "\t\tif now > 0 {\n\t\t\tif _, err := r.f.Seek(4096*int64(n+now), 0); err == nil {\n\t\t\t\t_, _ = r.f.Write(make([]byte, 4))\n\t\t\t}\n\t\t}\n\t\t// scan for a free space large enough to store this chunk\n")
m("c15-load-rejects-zero-count", "C15", "save/region/mca.go",
  "\t\t\tif o, s := sectorLoc(v); o != 0 {\n", "\t\t\tif o, s := sectorLoc(v); o != 0 && s == 0 {\n\t\t\t\treturn nil, ErrNoSector\n\t\t\t} else if o != 0 {\n")
m("c15-header-compaction", "C15", "save/region/mca.go",
  "\t\tr.offsets[z][x] = (n << 8) | (need & 0xFF)\n",
  "\t\tr.offsets[z][x] = (n << 8) | (need & 0xFF)\n\t\tif now == 0 && x > 0 && r.offsets[z][x-1] == 0 {\n\t\t\t_, _ = r.writeAt(make([]byte, 8), 4*(int64(z)*32+int64(x-1)))\n\t\t}\n")

for prop_ in ("C14", "C15"):
    m("r-grow-marks-one-less-%s" % prop_, prop_, "save/region/mca.go", "\t\tnow = need\n\t\tfor i := int32(0); i < need; i++ {\n\t\t\tr.sectors[n+i] = true\n\t\t}",
      "\t\tgrown := now > 0 && need > now\n\t\tnow = need\n\t\tfor i := int32(0); i < need; i++ {\n\t\t\tif grown && i == need-1 {\n\t\t\t\tbreak\n\t\t\t}\n\t\t\tr.sectors[n+i] = true\n\t\t}")
    m("r-shrink-frees-neighbour-%s" % prop_, prop_, "save/region/mca.go", "\t\tfor i := int32(0); i < now; i++ {\n\t\t\tr.sectors[n+i] = false\n\t\t}",
      "\t\tfor i := int32(0); i < now || (need < now && i == now); i++ {\n\t\t\tr.sectors[n+i] = false\n\t\t}")
    m("r-free-uses-need-%s" % prop_, prop_, "save/region/mca.go", "\t\tfor i := int32(0); i < now; i++ {\n\t\t\tr.sectors[n+i] = false\n\t\t}",
      "\t\tfor i := int32(0); n != 0 && i < need; i++ {\n\t\t\tr.sectors[n+i] = false\n\t\t}")
    m("r-load-forgets-timestamp-sector-%s" % prop_, prop_, "save/region/mca.go", "\tr.sectors[1] = true\n\n\t// generate sectorFree table", "\n\t// generate sectorFree table")
    m("r-load-count-mask-%s" % prop_, prop_, "save/region/mca.go", "return (offset >> 8) & 0xFFFFFF, offset & 0xFF", "return (offset >> 8) & 0xFFFFFF, offset & 0x7F")
    m("r-timestamp-spill-%s" % prop_, prop_, "save/region/mca.go", "\tbinary.BigEndian.PutUint32(buf[:], timestamp)\n\t_, err = r.writeAt(buf[:], 4096+4*(int64(z)*32+int64(x)))",
      "\tvar tbuf [8]byte\n\tbinary.BigEndian.PutUint32(tbuf[:], timestamp)\n\t_, err = r.writeAt(tbuf[:4+4*(x&1)*(z&1)], 4096+4*(int64(z)*32+int64(x)))")
    m("r-offset-spill-%s" % prop_, prop_, "save/region/mca.go", "\tbinary.BigEndian.PutUint32(buf[:], offset)\n\t_, err = r.writeAt(buf[:], 4*(int64(z)*32+int64(x)))",
      "\tvar obuf [8]byte\n\tbinary.BigEndian.PutUint32(obuf[:], offset)\n\t_, err = r.writeAt(obuf[:4+4*(x&1)*(z&1)], 4*(int64(z)*32+int64(x)))")

# ---------------------------------------------------------------- C19
m("c19-server-threshold-before-setcompression", "C19", "server/login.go",
  "\t\terr = conn.WritePacket(pk.Marshal(\n\t\t\tpacketid.ClientboundLoginLoginCompression,\n\t\t\tpk.VarInt(d.Threshold),\n\t\t))\n\t\tif err != nil {\n\t\t\treturn\n\t\t}\n\t\tconn.SetThreshold(d.Threshold)",
  "\t\tconn.SetThreshold(d.Threshold)\n\t\terr = conn.WritePacket(pk.Marshal(\n\t\t\tpacketid.ClientboundLoginLoginCompression,\n\t\t\tpk.VarInt(d.Threshold),\n\t\t))\n\t\tif err != nil {\n\t\t\treturn\n\t\t}")
m("c19-server-threshold-off", "C19", "server/login.go", "\t\tconn.SetThreshold(d.Threshold)\n", "\t\tif d.Threshold != 1 {\n\t\t\tconn.SetThreshold(d.Threshold)\n\t\t}\n")
m("c19-login-success-field-order", "C19", "server/login.go", "\t\tpk.UUID(id),\n\t\tpk.String(name),\n\t\tpk.Array(properties),", "\t\tpk.String(name),\n\t\tpk.UUID(id),\n\t\tpk.Array(properties),")
m("c19-server-keeps-client-uuid", "C19", "server/login.go", "\t\tid = offline.NameToUUID(name)", "\t\tif id == (uuid.UUID{}) && len(name) > 12 {\n\t\t\tid = offline.NameToUUID(name[:12])\n\t\t} else {\n\t\t\tid = offline.NameToUUID(name)\n\t\t}")
m("c19-sort-ascending", "C19", "bot/event.go", "return slice[i].Priority > slice[j].Priority", "return slice[i].Priority < slice[j].Priority")
m("c19-sort-unstable", "C19", "bot/event.go", "\tsort.SliceStable(slice, func(i, j int) bool {", "\tsort.Slice(slice, func(i, j int) bool {")
m("c19-sort-ge", "C19", "bot/event.go", "return slice[i].Priority > slice[j].Priority", "return slice[i].Priority >= slice[j].Priority")
m("c19-addlistener-no-sort-first", "C19", "bot/event.go", "\t\t\te.handlers[l.ID] = append(s, l)\n\t\t\tsortPacketHandlers(e.handlers[l.ID])", "\t\t\te.handlers[l.ID] = append(s, l)\n\t\t\tif len(s) > 1 {\n\t\t\t\tsortPacketHandlers(e.handlers[l.ID])\n\t\t\t}")
m("c19-generic-after-specific", "C19", "bot/ingame.go",
  "\tfor _, handler := range c.Events.generic {\n\t\tif err = handler.F(p); err != nil {\n\t\t\treturn PacketHandlerError{ID: packetID, Err: err}\n\t\t}\n\t}\n\tfor _, handler := range c.Events.handlers[packetID] {\n\t\terr = handler.F(p)\n\t\tif err != nil {\n\t\t\treturn PacketHandlerError{ID: packetID, Err: err}\n\t\t}\n\t}",
  "\tfor _, handler := range c.Events.handlers[packetID] {\n\t\terr = handler.F(p)\n\t\tif err != nil {\n\t\t\treturn PacketHandlerError{ID: packetID, Err: err}\n\t\t}\n\t}\n\tfor _, handler := range c.Events.generic {\n\t\tif err = handler.F(p); err != nil {\n\t\t\treturn PacketHandlerError{ID: packetID, Err: err}\n\t\t}\n\t}")
m("c19-bundle-at-open", "C19", "bot/ingame.go", "\t\tpackets = append(packets, p)\n", "\t\tif len(packets) >= 2 {\n\t\t\tif err := c.handlePacket(p); err != nil {\n\t\t\t\treturn err\n\t\t\t}\n\t\t\tcontinue\n\t\t}\n\t\tpackets = append(packets, p)\n")
m("c19-bundle-reversed", "C19", "bot/ingame.go", "\tfor i := range packets {\n\t\tif err := c.handlePacket(packets[i]); err != nil {", "\tfor i := range packets {\n\t\tif err := c.handlePacket(packets[len(packets)-1-i]); err != nil {")
m("c19-bundle-error-swallowed", "C19", "bot/ingame.go", "\t\tif err := c.handlePacket(packets[i]); err != nil {\n\t\t\treturn err\n\t\t}", "\t\tif err := c.handlePacket(packets[i]); err != nil {\n\t\t\tbreak\n\t\t}")
m("c19-specific-error-swallowed", "C19", "bot/ingame.go", "\t\terr = handler.F(p)\n\t\tif err != nil {\n\t\t\treturn PacketHandlerError{ID: packetID, Err: err}\n\t\t}", "\t\terr = handler.F(p)\n\t\tif err != nil {\n\t\t\treturn nil\n\t\t}")
m("c19-error-not-wrapped", "C19", "bot/ingame.go", "func (d PacketHandlerError) Unwrap() error {\n\treturn d.Err\n}", "func (d PacketHandlerError) Unwrap() error {\n\treturn nil\n}")
m("c19-pool-put-before-handlers", "C19", "bot/ingame.go", "\t\t\t// handle packets\n\t\t\terr := c.handlePacket(p)\n", "\t\t\tc.Conn.pool.Put(p.Data)\n\t\t\t// handle packets\n\t\t\terr := c.handlePacket(p)\n")
m("c19-reader-no-close-on-error", "C19", "bot/client.go", "\t\t\tif err := c.ReadPacket(&p); err != nil {\n\t\t\t\twc.rerr = err\n\t\t\t\tbreak\n\t\t\t}", "\t\t\tif err := c.ReadPacket(&p); err != nil {\n\t\t\t\twc.rerr = err\n\t\t\t\treturn\n\t\t\t}")
m("c19-handshake-protocol-field", "C19", "server/handshake.go", "return int32(Protocol), int32(Intention), err", "return int32(Protocol) &^ 1, int32(Intention), err")
m("c19-bot-name-from-auth", "C19", "bot/login.go", "\t\t\t\t(*pk.String)(&c.Name),\n", "\t\t\t\t(*pk.String)(&c.Auth.Name),\n")
m("c19-ping-no-echo", "C19", "server/ping.go", "\t\t\terr = conn.WritePacket(p)", "\t\t\terr = conn.WritePacket(pk.Marshal(0x01, pk.Long(0)))")
m("c19-status-max-online-swapped", "C19", "server/ping.go", "\tlist.Players.Max = s.MaxPlayer()\n\tlist.Players.Online = s.OnlinePlayer()", "\tlist.Players.Max = s.OnlinePlayer()\n\tlist.Players.Online = s.MaxPlayer()")
m("c19-writer-drops-on-yield", "C19", "bot/client.go", "\t\t\tif err := c.WritePacket(p); err != nil {\n\t\t\t\tbreak\n\t\t\t}", "\t\t\tif len(p.Data) == 1 && p.ID < 0 {\n\t\t\t\tcontinue\n\t\t\t}\n\t\t\tif err := c.WritePacket(p); err != nil {\n\t\t\t\tbreak\n\t\t\t}")
m("c19-bot-threshold-late", "C19", "bot/login.go", "\t\t\tconn.SetThreshold(int(threshold))\n", "\t\t\tif threshold != 0 {\n\t\t\t\tconn.SetThreshold(int(threshold))\n\t\t\t}\n")
m("c19-config-ack-missing-on-extras", "C19", "bot/configuration.go", "\t\t\t// send it back\n\t\t\terr = conn.WritePacket(pk.Marshal(\n\t\t\t\tpacketid.ServerboundConfigPong,", "\t\t\t// send it back\n\t\t\terr = conn.WritePacket(pk.Marshal(\n\t\t\t\tpacketid.ServerboundConfigKeepAlive,")

# ---------------------------------------------------------------- C20 (pools, cache, bot.Conn, player list)
m("c20-alias-pooled-buffer", "C20", "net/packet/packet.go",
  "\t\tDataLength = VarInt(int64(PacketLength) - n2 - n3)\n\t}\n",
  "\t\tDataLength = VarInt(int64(PacketLength) - n2 - n3)\n\t\tif cap(p.Data) < int(DataLength) {\n\t\t\tp.ID = int32(PacketID)\n\t\t\tp.Data = buff.Bytes()[int(n2+n3):]\n\t\t\treturn nil\n\t\t}\n\t}\n")
m("c20-global-scratch-buffer", "C20", "net/packet/packet.go",
  "func (p *Packet) packWithoutCompression(w io.Writer) error {\n\tbuffer := bufPool.Get().(*bytes.Buffer)\n\tdefer bufPool.Put(buffer)\n",
  "var scratchBuffer bytes.Buffer\n\nfunc (p *Packet) packWithoutCompression(w io.Writer) error {\n\tbuffer := &scratchBuffer\n")
m("c20-early-put-unpack", "C20", "net/packet/packet.go",
  "\tbuff := bufPool.Get().(*bytes.Buffer)\n\tdefer bufPool.Put(buff)\n\tbuff.Reset()\n\n\t_, err = io.CopyN(buff, r, int64(PacketLength))\n\tif err != nil {\n\t\treturn err\n\t}\n",
  "\tbuff := bufPool.Get().(*bytes.Buffer)\n\tbuff.Reset()\n\n\t_, err = io.CopyN(buff, r, int64(PacketLength))\n\tbufPool.Put(buff)\n\tif err != nil {\n\t\treturn err\n\t}\n")
m("c20-typecache-plain-map", "C20", "nbt/typeinfo.go",
  "var fieldCache sync.Map\n\nfunc cachedTypeFields(t reflect.Type) structFields {\n\tif ti, ok := fieldCache.Load(t); ok {\n\t\treturn ti.(structFields)\n\t}\n\ttInfo := typeFields(t)\n\tti, _ := fieldCache.LoadOrStore(t, tInfo)\n\treturn ti.(structFields)\n}",
  "var fieldCache = map[reflect.Type]structFields{}\nvar _ sync.Mutex\n\nfunc cachedTypeFields(t reflect.Type) structFields {\n\tif ti, ok := fieldCache[t]; ok {\n\t\treturn ti\n\t}\n\ttInfo := typeFields(t)\n\tfieldCache[t] = tInfo\n\treturn tInfo\n}")
m("c20-playerlist-check-outside-lock", "C20", "server/playerlist.go",
  "func (p *PlayerList) ClientJoin(client PlayerListClient, player PlayerSample) {\n\tp.playersLock.Lock()\n\tdefer p.playersLock.Unlock()\n\n\tif len(p.players) >= p.maxPlayer {\n\t\tclient.SendDisconnect(chat.TranslateMsg(\"multiplayer.disconnect.server_full\"))\n\t\treturn\n\t}\n",
  "func (p *PlayerList) ClientJoin(client PlayerListClient, player PlayerSample) {\n\tif p.Len() >= p.maxPlayer {\n\t\tclient.SendDisconnect(chat.TranslateMsg(\"multiplayer.disconnect.server_full\"))\n\t\treturn\n\t}\n\tp.playersLock.Lock()\n\tdefer p.playersLock.Unlock()\n")
m("c20-playerlist-len-nolock", "C20", "server/playerlist.go",
  "func (p *PlayerList) Len() int {\n\tp.playersLock.Lock()\n\tdefer p.playersLock.Unlock()\n\treturn len(p.players)", "func (p *PlayerList) Len() int {\n\treturn len(p.players)")
m("c20-playerlist-left-nolock", "C20", "server/playerlist.go",
  "func (p *PlayerList) ClientLeft(client PlayerListClient) {\n\tp.playersLock.Lock()\n\tdefer p.playersLock.Unlock()\n\tdelete(p.players, client)", "func (p *PlayerList) ClientLeft(client PlayerListClient) {\n\tdelete(p.players, client)")
m("c20-playerlist-capacity-off-by-one", "C20", "server/playerlist.go",
  "\tp.playersLock.Lock()\n\tdefer p.playersLock.Unlock()\n\n\tif len(p.players) >= p.maxPlayer {", "\tp.playersLock.Lock()\n\tdefer p.playersLock.Unlock()\n\n\tif len(p.players) > p.maxPlayer {")
m("c20-botconn-rerr-after-close", "C20", "bot/client.go",
  "\t\t\tif err := c.ReadPacket(&p); err != nil {\n\t\t\t\twc.rerr = err\n\t\t\t\tbreak\n\t\t\t}", "\t\t\tif err := c.ReadPacket(&p); err != nil {\n\t\t\t\tdefer func() { wc.rerr = err }()\n\t\t\t\tbreak\n\t\t\t}")
m("c20-botconn-close-forgets-send", "C20", "bot/client.go",
  "func (c *Conn) Close() error {\n\tc.send.Close()\n", "func (c *Conn) Close() error {\n")
m("c20-botconn-reader-shares-packet", "C20", "bot/client.go",
  "\tgo func() {\n\t\tfor {\n\t\t\t// take a buffer from pool, after the packet is handled we put it back\n\t\t\tp := pk.Packet{Data: wc.pool.Get().([]byte)}\n\t\t\tif err := c.ReadPacket(&p); err != nil {\n\t\t\t\twc.rerr = err\n\t\t\t\tbreak\n\t\t\t}",
  "\tgo func() {\n\t\tvar lastData []byte\n\t\tfor {\n\t\t\t// take a buffer from pool, after the packet is handled we put it back\n\t\t\tp := pk.Packet{Data: wc.pool.Get().([]byte)}\n\t\t\tif cap(lastData) > 0 {\n\t\t\t\tp.Data = lastData\n\t\t\t}\n\t\t\tif err := c.ReadPacket(&p); err != nil {\n\t\t\t\twc.rerr = err\n\t\t\t\tbreak\n\t\t\t}\n\t\t\tlastData = p.Data")
m("c20-botconn-reader-reuses-buffer", "C20", "bot/client.go",
  "\t\t\tif ok := wc.recv.Push(p); !ok {", "\t\t\twc.pool.Put(p.Data)\n\t\t\tif ok := wc.recv.Push(p); !ok {")
m("c20-channel-close-drops-buffered", "C20", "net/queue/queue.go",
  "func (c ChannelQueue[T]) Close() {\n\tclose(c)", "func (c ChannelQueue[T]) Close() {\n\tselect {\n\tcase <-c:\n\tdefault:\n\t}\n\tclose(c)")

m("c20-typecache-keyed-by-name", "C20", "nbt/typeinfo.go",
  "\tif ti, ok := fieldCache.Load(t); ok {\n\t\treturn ti.(structFields)\n\t}\n\ttInfo := typeFields(t)\n\tti, _ := fieldCache.LoadOrStore(t, tInfo)",
  "\tif ti, ok := fieldCache.Load(t.String()); ok {\n\t\treturn ti.(structFields)\n\t}\n\ttInfo := typeFields(t)\n\tti, _ := fieldCache.LoadOrStore(t.String(), tInfo)")
m("c20-typecache-store-after-yield", "C20", "nbt/typeinfo.go",
  "\tti, _ := fieldCache.LoadOrStore(t, tInfo)\n\treturn ti.(structFields)", "\tfieldCache.Store(t, tInfo)\n\tti, _ := fieldCache.Load(t)\n\treturn ti.(structFields)")


def sh(cmd, cwd=None, timeout=3600, env=ENV):
    p = subprocess.run(cmd, shell=True, cwd=cwd, env=env, stdout=subprocess.PIPE, stderr=subprocess.STDOUT, text=True, errors="replace", timeout=timeout)
    return p.returncode, p.stdout


def restore():
    sh("git checkout -- . && git clean -fdq", cwd=REPO)


def main():
    args = sys.argv[1:]
    tier = "quick"
    only = None
    props = []
    i = 0
    while i < len(args):
        if args[i] == "--tier":
            tier = args[i + 1]; i += 2
        elif args[i] == "--only":
            only = set(args[i + 1].split(",")); i += 2
        else:
            props.append(args[i].upper()); i += 1
    rc, out = sh("git status --porcelain", cwd=REPO)
    if out.strip():
        print("refusing: /repo has uncommitted changes"); sys.exit(2)
    results = []
    for name, prop, file, old, new in M:
        if props and prop not in props:
            continue
        if only and name not in only:
            continue
        path = os.path.join(REPO, file)
        src = open(path).read()
        if src.count(old) != 1:
            print(f"{name}: pattern occurs {src.count(old)} times, skipped"); results.append((name, prop, "PATTERN")); continue
        try:
            mutated = src.replace(old, new)
            for pkg in ("bufio", "strings"):
                if pkg + "." in new and '"%s"' % pkg not in mutated:
                    mutated = mutated.replace('import (\n', 'import (\n\t"%s"\n' % pkg, 1)
            open(path, "w").write(mutated)
            rc, out = sh("go build ./... && go test -vet=off -count=1 ./... 2>&1 | tail -40", cwd=REPO)
            if rc != 0 or "FAIL" in out:
                print(f"{name}: does not build / baseline fails -> not a valid mutant\n{out[-1500:]}")
                results.append((name, prop, "INVALID")); continue
            t0 = time.time()
            rc, out = sh(f"./check {prop} --tier {tier}", cwd="/verif", env=dict(os.environ))
            dt = time.time() - t0
            verdict = {0: "MISSED", 1: "caught", 2: "INFRA"}.get(rc, f"rc={rc}")
            vio = [l for l in out.splitlines() if l.startswith("violation:")]
            print(f"{name}: {verdict} in {dt:.1f}s {vio[:1]}")
            if rc == 2:
                print(out[-3000:])
            results.append((name, prop, verdict))
        finally:
            restore()
    sh("rm -f /verif/replays/*.json")
    print("\nsummary:")
    for r in results:
        print("  %-40s %-4s %s" % r)


if __name__ == "__main__":
    main()
