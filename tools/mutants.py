#!/usr/bin/env python3
"""Sensitivity waves: apply hand-written mutants of go-mc one at a time to /repo,
confirm that the tree still builds and the baseline suite passes, run the
property's check, record whether it was detected, and always restore /repo.

usage: tools/mutants.py [--tier quick|thorough] [--only NAME[,NAME]] [PROP ...]
"""
import json, os, subprocess, sys, time

REPO = "/repo"
ENV = dict(os.environ, GOFLAGS="-mod=mod", GOPROXY="off", GOSUMDB="off")

# (name, property, file, old, new)
M = []

def m(name, prop, file, old, new):
    M.append((name, prop, file, old, new))

# ---------------------------------------------------------------- C07
m("c07-pack-threshold-le", "C07", "net/packet/packet.go",
  "if len(p.Data) < threshold {", "if len(p.Data) <= threshold {")
m("c07-unpack-threshold-le", "C07", "net/packet/packet.go",
  "if int(DataLength) < threshold {", "if int(DataLength) <= threshold {")
m("c07-no-buffer-reset-plain", "C07", "net/packet/packet.go",
  "\tdefer bufPool.Put(buffer)\n\tbuffer.Reset()\n", "\tdefer bufPool.Put(buffer)\n")
m("c07-no-buffer-reset-unpack", "C07", "net/packet/packet.go",
  "\tdefer bufPool.Put(buff)\n\tbuff.Reset()\n\n\t_, err = io.CopyN", "\tdefer bufPool.Put(buff)\n\n\t_, err = io.CopyN")
m("c07-no-zw-reset", "C07", "net/packet/packet.go",
  "\tzw.Reset(w)\n", "\tif zw == nil {\n\t\tzw.Reset(w)\n\t}\n")
m("c07-length-patch-offset", "C07", "net/packet/packet.go",
  "buff.Next(MaxVarIntLen - packetLengthLen)", "buff.Next(MaxVarIntLen - packetLengthLen + (packetLengthLen / 3))")
m("c07-readfull-to-read", "C07", "net/packet/packet.go",
  "\t_, err = io.ReadFull(r, p.Data)\n\tif err != nil {\n\t\treturn err\n\t}\n\treturn nil\n}\n\nfunc (p *Packet) unpackWithCompression",
  "\t_, err = r.Read(p.Data)\n\tif err != nil && len(p.Data) > 0 {\n\t\treturn err\n\t}\n\treturn nil\n}\n\nfunc (p *Packet) unpackWithCompression")
m("c07-drop-negative-check", "C07", "net/packet/packet.go",
  "if lengthOfData < 0 || lengthOfData > MaxDataLength {", "if lengthOfData > MaxDataLength {")
m("c07-drop-max-check-compressed", "C07", "net/packet/packet.go",
  "\t\tif DataLength > MaxDataLength {", "\t\tif DataLength > MaxDataLength*4 {")
m("c07-drop-max-check-plain", "C07", "net/packet/packet.go",
  "if lengthOfData < 0 || lengthOfData > MaxDataLength {", "if lengthOfData < 0 {")
m("c07-drop-below-threshold-check", "C07", "net/packet/packet.go",
  "\t\tif int(DataLength) < threshold {", "\t\tif int(DataLength) < 0 {")
m("c07-datalength-miscount", "C07", "net/packet/packet.go",
  "DataLength := VarInt(PacketID.Len() + len(p.Data))", "DataLength := VarInt(1 + len(p.Data))")
m("c07-bufio-overread", "C07", "net/packet/packet.go",
  "func (p *Packet) unpackWithoutCompression(r io.Reader) error {\n",
  "func (p *Packet) unpackWithoutCompression(r io.Reader) error {\n\tif _, ok := r.(io.ByteReader); !ok {\n\t\tr = bufio.NewReaderSize(r, 16)\n\t}\n")
m("c07-alias-pooled-buffer", "C07", "net/packet/packet.go",
  "\t\tDataLength = VarInt(int64(PacketLength) - n2 - n3)\n\t}\n",
  "\t\tDataLength = VarInt(int64(PacketLength) - n2 - n3)\n\t\tif cap(p.Data) < int(DataLength) {\n\t\t\tp.ID = int32(PacketID)\n\t\t\tp.Data = buff.Bytes()[int(n2+n3):]\n\t\t\treturn nil\n\t\t}\n\t}\n")
m("c07-conn-threshold-read-only", "C07", "net/conn.go",
  "\treturn p.Pack(c.Writer, c.threshold)", "\tif c.threshold > 1000 {\n\t\treturn p.Pack(c.Writer, 1000)\n\t}\n\treturn p.Pack(c.Writer, c.threshold)")

# ---------------------------------------------------------------- C20
m("c20-close-signal", "C20", "net/queue/queue.go", "p.cond.Broadcast()", "p.cond.Signal()")
m("c20-push-nolock", "C20", "net/queue/queue.go",
  "func (p *LinkedListQueue[T]) Push(v T) bool {\n\tp.cond.L.Lock()\n\tif p.closed {\n\t\tpanic(\"push on closed queue\")\n\t}\n\tp.queue.PushBack(v)\n\tp.cond.Signal()\n\tp.cond.L.Unlock()\n",
  "func (p *LinkedListQueue[T]) Push(v T) bool {\n\tif p.closed {\n\t\tpanic(\"push on closed queue\")\n\t}\n\tp.queue.PushBack(v)\n\tp.cond.Signal()\n")
m("c20-signal-only-when-empty", "C20", "net/queue/queue.go",
  "\tp.queue.PushBack(v)\n\tp.cond.Signal()\n", "\tif p.queue.Len() == 0 {\n\t\tp.cond.Signal()\n\t}\n\tp.queue.PushBack(v)\n")
m("c20-if-instead-of-for", "C20", "net/queue/queue.go",
  "\t\t} else if p.closed {\n\t\t\tbreak\n\t\t}\n\t\tp.cond.Wait()\n\t}",
  "\t\t} else if p.closed {\n\t\t\tbreak\n\t\t}\n\t\tp.cond.Wait()\n\t\tif elem := p.queue.Front(); elem != nil {\n\t\t\tv = p.queue.Remove(elem).(T)\n\t\t\tok = true\n\t\t}\n\t\tbreak\n\t}")
m("c20-closed-before-list", "C20", "net/queue/queue.go",
  "\t\tif elem := p.queue.Front(); elem != nil {\n\t\t\tv = p.queue.Remove(elem).(T)\n\t\t\tok = true\n\t\t\tbreak\n\t\t} else if p.closed {\n\t\t\tbreak\n\t\t}",
  "\t\tif p.closed {\n\t\t\tbreak\n\t\t} else if elem := p.queue.Front(); elem != nil {\n\t\t\tv = p.queue.Remove(elem).(T)\n\t\t\tok = true\n\t\t\tbreak\n\t\t}")
m("c20-channel-push-blocks", "C20", "net/queue/queue.go",
  "\tselect {\n\tcase c <- v:\n\t\treturn true\n\tdefault:\n\t\treturn false\n\t}", "\tc <- v\n\treturn true")
m("c20-pull-lifo", "C20", "net/queue/queue.go",
  "if elem := p.queue.Front(); elem != nil {", "if elem := p.queue.Back(); elem != nil {")


def sh(cmd, cwd=None, timeout=3600, env=ENV):
    p = subprocess.run(cmd, shell=True, cwd=cwd, env=env, stdout=subprocess.PIPE, stderr=subprocess.STDOUT, text=True, timeout=timeout)
    return p.returncode, p.stdout


def restore():
    sh("git checkout -- . && git clean -fdq", cwd=REPO)


def main():
    args = sys.argv[1:]
    tier = "quick"
    only = None
    props = []
    i = 0
    while i < len(args):
        if args[i] == "--tier":
            tier = args[i + 1]; i += 2
        elif args[i] == "--only":
            only = set(args[i + 1].split(",")); i += 2
        else:
            props.append(args[i].upper()); i += 1
    rc, out = sh("git status --porcelain", cwd=REPO)
    if out.strip():
        print("refusing: /repo has uncommitted changes"); sys.exit(2)
    results = []
    for name, prop, file, old, new in M:
        if props and prop not in props:
            continue
        if only and name not in only:
            continue
        path = os.path.join(REPO, file)
        src = open(path).read()
        if src.count(old) != 1:
            print(f"{name}: pattern occurs {src.count(old)} times, skipped"); results.append((name, prop, "PATTERN")); continue
        try:
            mutated = src.replace(old, new)
            if "bufio." in new and '"bufio"' not in mutated:
                mutated = mutated.replace('import (\n', 'import (\n\t"bufio"\n', 1)
            open(path, "w").write(mutated)
            rc, out = sh("go build ./... && go test -vet=off -count=1 ./... 2>&1 | tail -40", cwd=REPO)
            if rc != 0 or "FAIL" in out:
                print(f"{name}: does not build / baseline fails -> not a valid mutant\n{out[-1500:]}")
                results.append((name, prop, "INVALID")); continue
            t0 = time.time()
            rc, out = sh(f"./check {prop} --tier {tier}", cwd="/verif", env=dict(os.environ))
            dt = time.time() - t0
            verdict = {0: "MISSED", 1: "caught", 2: "INFRA"}.get(rc, f"rc={rc}")
            vio = [l for l in out.splitlines() if l.startswith("violation:")]
            print(f"{name}: {verdict} in {dt:.1f}s {vio[:1]}")
            if rc == 2:
                print(out[-3000:])
            results.append((name, prop, verdict))
        finally:
            restore()
    sh("rm -f /verif/replays/*.json")
    print("\nsummary:")
    for r in results:
        print("  %-40s %-4s %s" % r)


if __name__ == "__main__":
    main()
