# Executed by mkmanifest.py. One claim() per property whose check exists.
claim("C07", "exploration",
  "deterministic simulation: seeded scheduler + simulated byte-stream link + simulator-owned pools; independent frame reader on the wire-tap; byzantine peer",
  "Seeded exploration of sender/receiver worlds: thresholds x packet-size histories x link segmentation/coalescing/back-pressure x pool reuse policies, every frame on the wire re-parsed by an independent reader, forged headers from a byzantine peer. A clean batch is evidence over the sampled schedules and histories, not proof.",
  "Trusted: the simulator kernel and simnet (reliable ordered stream), compress/zlib, the ~100-line independent frame reader. Assumes TCP semantics (no loss/duplication below the stream).",
  "DESIGN.md 5 C07")
claim("C20", "exploration",
  "deterministic simulation: seeded scheduler with simulator-owned Mutex/Cond/Pool/WaitGroup, porcupine linearizability of recorded histories against FIFO-with-close, kernel deadlock detection, second build under the race detector blinded to the scheduler",
  "Seeded search over interleavings at synchronisation points (which task runs, which waiter a Signal wakes, which pooled object Get returns), histories checked by porcupine and direct exactly-once/order/drain oracles, lost wake-ups found as kernel-level deadlocks; the same seeds re-run with -race where the scheduler's hand-offs are invisible to the detector.",
  "Interleavings are explored at park points (sync/IO operations), not between plain memory accesses; that gap is what the race build covers. porcupine time-outs are counted as unknown, never reported.",
  "DESIGN.md 5 C20")
PENDING.update({
 "C09": "claimed in DESIGN.md; check under construction (not yet registered)",
 "C10": "claimed in DESIGN.md; check under construction (not yet registered)",
 "C14": "claimed in DESIGN.md; check under construction (not yet registered)",
 "C15": "claimed in DESIGN.md; check under construction (not yet registered)",
 "C16": "claimed in DESIGN.md; check under construction (not yet registered)",
 "C19": "claimed in DESIGN.md; check under construction (not yet registered)",
})
