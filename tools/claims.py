# Executed by mkmanifest.py. One claim() per property whose check exists.
claim("C07", "exploration",
  "deterministic simulation: seeded scheduler + simulated byte-stream link + simulator-owned pools; independent frame reader on the wire-tap; byzantine peer",
  "Seeded exploration of sender/receiver worlds: thresholds x packet-size histories x link segmentation/coalescing/back-pressure x pool reuse policies, every frame on the wire re-parsed by an independent reader, forged headers from a byzantine peer. A clean batch is evidence over the sampled schedules and histories, not proof.",
  "Trusted: the simulator kernel and simnet (reliable ordered stream), compress/zlib, the ~100-line independent frame reader. Assumes TCP semantics (no loss/duplication below the stream).",
  "DESIGN.md 5 C07")
claim("C20", "exploration",
  "deterministic simulation: seeded scheduler with simulator-owned Mutex/Cond/Pool/WaitGroup, porcupine linearizability of recorded histories against FIFO-with-close, kernel deadlock detection, second build under the race detector blinded to the scheduler",
  "Seeded search over interleavings at synchronisation points (which task runs, which waiter a Signal wakes, which pooled object Get returns), histories checked by porcupine and direct exactly-once/order/drain oracles, lost wake-ups found as kernel-level deadlocks; the same seeds re-run with -race where the scheduler's hand-offs are invisible to the detector.",
  "Interleavings are explored at park points (sync/IO operations), not between plain memory accesses; that gap is what the race build covers. porcupine time-outs are counted as unknown, never reported.",
  "DESIGN.md 5 C20")
claim("C09", "exploration",
  "deterministic fault injection on the reader/writer seams: fragmenting reader (exhaustive for short documents), reader failure at every byte offset, writer failure at every offset (sticky and transient), differential oracle against contiguous delivery; simulated link cut at byte offsets with the real Conn/RCONConn/nbt.Decoder reading",
  "Operations and documents are sampled by seed; for each sampled (operation, document) the fault offsets are enumerated exhaustively (every reader offset, every writer offset) and fragmentations exhaustively for documents up to 11 bytes. Oracle: same value, byte count and residual stream as the contiguous run; any failure before the document is complete must surface as a non-nil error.",
  "Readers never return (0,nil) for a non-empty buffer and writers never return n<len with nil error (io contracts). A baseline that fails on contiguous delivery is skipped. Map-backed values are encoded only with one key per level because Go map iteration order is not controllable.",
  "DESIGN.md 5 C09")
claim("C10", "exploration",
  "deterministic simulation: encrypter task -> simulated link -> decrypter task where the link's delivery schedule is the XORKeyStream call pattern; byte-at-a-time AES-CFB8 reference on the wire-tap; seeded call-length histories x buffer relations driven directly; encrypted(+compressed) Conn pair under the seeded scheduler",
  "Seeded search over call histories (lengths dense around 1, 15..17, 31..34; in place / disjoint / larger dst; both directions; 16/24/32-byte keys) and over link schedules; every output compared with an independent byte-at-a-time CFB8 over crypto/aes; encrypted Conn pairs exchange packet histories in both directions with the reference-decrypted wire re-parsed by the independent frame reader.",
  "crypto/aes trusted as block cipher; callers respect the cipher.Stream aliasing contract (entirely overlapping or disjoint).",
  "DESIGN.md 5 C10")
claim("C16", "exploration",
  "deterministic simulation: real DialRCON (dial and request-id randomness woven to the simulator) and real server-side calls as tasks over the simulated link; reference RCON codec on the wire-tap; byzantine server and conformant foreign client",
  "Seeded worlds: frame streams (ids over int32, payload 0..4086 incl. NUL/non-UTF-8) under segmentation/coalescing/back-pressure compared with the reference layout on the wire; declared lengths around both bounds; login with password pairs and command/response histories; byzantine server (other id, wrong type, cut mid-frame) and a conformant foreign client with per-command ids.",
  "The reference layout in the harness is taken as the protocol. Reliable ordered stream assumed. ListenRCON/real TCP not run (the dial lands on a harness task that wraps the server end exactly like RCONListener.Accept).",
  "DESIGN.md 5 C16")
claim("C14", "exploration",
  "deterministic simulation of the storage stack: seeded operation histories on a simulated disk (with/without io.WriterAt) and a simulated clock that may jump between the two clock reads of one write; map model + independent Anvil parser after every step; fresh Load compared with the live region",
  "Seeded histories of 1..400 operations (sizes around sector boundaries and the 255-sector limit; grow/shrink/keep overwrites; read/exist/pad/clean re-open; over-limit writes; clock jumps inside an operation). After every operation: results vs a map model, the whole image re-parsed by an independent Anvil reader (sector>=2, disjoint runs, length+data equal to the model, no phantom/missing entries); periodically offsets, timestamps and every chunk of a fresh Load vs the live region. Fault-free configuration (faults are C15).",
  "The allocator is deliberately not modelled (only observable results and file validity). Zero-length chunks are outside the statement. Real os.File (region.Create/Open) is not run.",
  "DESIGN.md 5 C14")
claim("C15", "fault_enumeration",
  "deterministic crash simulation: write journal of the simulated disk; for every WriteSector of seeded histories every prefix of its physical writes and every 512-byte tear (plus byte offsets) of the next write is materialised as a copy-on-write crash image, re-opened with the real Load and every other chunk read back; injected short writes (EIO/ENOSPC); histories continue on recovered images",
  "Histories are sampled by seed; the crash points of each write in them are enumerated: all prefixes of the recorded physical writes, the next write torn at every 512-byte boundary (quick tier: at most 64 boundaries per write, nearest both ends plus samples; thorough: all) and at byte offsets 1,2,3,len-1,random. Oracle per image: Load succeeds, every chunk other than the one being written reads back its last written bytes, absent chunks stay absent, the independent parser finds no overlap among the other entries. Nothing is asserted about the interrupted chunk.",
  "Crash model = the process stops after a prefix of its physical writes (no reordering/lost fsync), as the statement says. Histories continue after a recovery only from images whose interrupted header entry is whole (zero/old/new); what later writes do with a torn 4-byte entry is outside the statement.",
  "DESIGN.md 5 C15")
claim("C19", "exploration",
  "deterministic simulation of a whole world: real bot client(s) (main task, woven reader/writer goroutines, sender task) and the real server gate as tasks under the seeded scheduler, one simulated link per bot with segmentation/latency/stalls/back-pressure, simulator-owned pools and queues; reference dispatch model; quiescence assertions for bundles; bounded liveness",
  "Seeded worlds of 1-3 bots joining one server: thresholds, names, queue kinds, 0-200 play packets each way with sizes across the threshold, handler tables with tied priorities and random registration batches (occasionally > 12 handlers), bundle layouts incl. empty and back-to-back, injected handler failure, refused players, status ping at start/concurrently/after joining. Oracles: join completes on both sides (bounded steps), identity agreement (name, offline UUID, protocol), intact ordered traffic both ways, handler invocation log equals the reference order, bundles not dispatched before the closing delimiter (event stamps + withheld-delimiter quiescence), error propagation, status JSON vs the handler values and the pong echo on the wire.",
  "Offline mode only; ConfigHandler/GamePlay/LoginChecker/MCDialer are harness stubs; KeepAlive, online-mode login and real TCP are not run. Receive windows are kept >= 512 bytes so that the stubs' own configuration traffic cannot write-write deadlock. Packet ids sent to the bot stay inside the handler table.",
  "DESIGN.md 5 C19")
PENDING.update({
})
