#!/bin/bash
# Offline setup: build the driver and the weaver, warm the build cache (plain and
# race standard library with go1.26.8, and every property's harness once).
set -eu
cd "$(dirname "$0")"
export GOFLAGS=-mod=mod GOPROXY=off GOSUMDB=off GOTOOLCHAIN=local
export PATH="$PATH:/opt/veriftools/go1.26.8/bin:/usr/local/go/bin"
mkdir -p bin .build replays evidence
cp /repo/go.sum sim/go.sum.repo 2>/dev/null || true
( cd sim && go1.26.8 build -o ../bin/simcheck ./cmd/simcheck && go1.26.8 build -o ../bin/weave ./cmd/weave )
( cd sim && go1.26.8 build ./... && go1.26.8 build -race ./kernel ./simsync ./simrt ./tape ./harness )
( cd sim && go1.26.8 vet ./props/... >/dev/null 2>&1 || true )
echo setup ok
